------------------------------ MODULE Integrate ------------------------------
(***************************************************************************)
(* The time loop of jaxley.integrate as a specification over INTEGER probe  *)
(* dynamics (integrate.py, utils/jax_utils.py nested_checkpoint_scan):      *)
(* which input sample acts in which step, padding / truncation by t_max,    *)
(* which column holds which state, the order in which a nested checkpoint   *)
(* layout consumes the inputs, which state is returned, continuation.       *)
(*                                                                         *)
(* Probe module (built by the harness through the public API): three        *)
(* isolated capacitor compartments; compartment 0 carries probe channel A   *)
(* (+1 mV per step, state A_s counts steps); compartment 1 receives a       *)
(* stimulus whose sample k is Amp(k) nA and moves v by 4 mV per nA;         *)
(* compartment 1 optionally receives a SECOND stimulus (amplitudes add);    *)
(* compartment 2 is optionally voltage clamped to Cl(k).                    *)
(***************************************************************************)
EXTENDS Naturals, Integers, Sequences, FiniteSets, TLC

CONSTANTS MaxIn,      \* maximal number of input samples
          MaxEntry,   \* entries of checkpoint_lengths are in 1..MaxEntry
          MaxNest,    \* nesting depth of checkpoint_lengths
          AS_CODED_RET   \* TRUE: return_states hands back the state after prod(checkpoint_lengths) steps (F6)

RECURSIVE Prod(_)
Prod(s) == IF s = <<>> THEN 1 ELSE Head(s) * Prod(Tail(s))
Layouts == UNION {[1..d -> 1..MaxEntry] : d \in 1..MaxNest}
NoLayout == <<>>

Amp(k) == 10 + k                  \* first stimulus, sample k (nA)
Amp2(k) == 100 * k                \* second stimulus on the same compartment
Amp3(k) == 1000 + 3 * k           \* stimulus fed with data_stimulate (functional) into compartment 0
Cl(k) == 1000 + 7 * k             \* clamp value of sample k
K1 == 4                           \* mV per nA and step of compartment 1

S0 == [v |-> <<0, 0, 0>>, c |-> 0]
K0 == 2                           \* mV per nA and step of compartment 0
\* one step with input sample x = [i, d, cl]: static stimulus on compartment 1, data-fed stimulus on compartment 0,
\* clamp value of compartment 2 (or -1: none)
Step(S, x) == [v |-> <<S.v[1] + 1 + K0 * x.d, S.v[2] + K1 * x.i, IF x.cl >= 0 THEN x.cl ELSE S.v[3]>>, c |-> S.c + 1]
Rec(S) == <<S.v[1], S.v[2], S.v[3], S.c>>      \* record order: v of comps 0, 1, 2, then A_s of comp 0

(* configuration of one integrate call *)
\* tin: samples of every input; tmax: requested number of steps (0 = t_max not given); two: second stimulus;
\* clamp: voltage clamp present; L: checkpoint_lengths (<<>> = None); off: index of the first sample (continuation)
Steps(cfg) == IF cfg.tmax = 0 THEN cfg.tin ELSE cfg.tmax
Refused(cfg) == \/ (cfg.clamp /\ cfg.tmax > cfg.tin)              \* "clamp must be at least as long as simulation"
                \/ (cfg.L # NoLayout /\ Prod(cfg.L) < Steps(cfg))   \* assertion in integrate
\* sample k of the run (k = 1..): stimulus padded with zeros / truncated by t_max; the scan itself runs
\* prod(L) steps on inputs padded with zeros (stimulus AND clamp: the dummy externals of integrate)
Sample(cfg, k) ==
  LET kk == cfg.off + k
      inRange == k <= cfg.tin /\ k <= Steps(cfg)
  IN [i  |-> IF inRange THEN Amp(kk) + (IF cfg.two THEN Amp2(kk) ELSE 0) ELSE 0,
      d  |-> IF cfg.dat /\ inRange THEN Amp3(kk) ELSE 0,       \* data_stimulate on ANOTHER compartment than the static stimulus
      cl |-> IF ~cfg.clamp THEN 0 - 1 ELSE IF inRange THEN Cl(kk) ELSE 0]

(* nested_checkpoint_scan: reshape the inputs to the layout and recurse; returns carry and all outputs *)
RECURSIVE Scan(_, _, _, _, _)
Scan(cfg, S, first, n, L) ==          \* consumes samples first .. first+n-1
  IF Len(L) <= 1
  THEN LET RECURSIVE fold(_, _, _)
           fold(s, k, outs) == IF k >= first + n THEN [carry |-> s, outs |-> outs]
                               ELSE LET s2 == Step(s, Sample(cfg, k)) IN fold(s2, k + 1, Append(outs, Rec(s2)))
       IN fold(S, first, <<>>)
  ELSE LET m == Prod(Tail(L))
           RECURSIVE outer(_, _, _)
           outer(s, i, outs) == IF i > L[1] THEN [carry |-> s, outs |-> outs]
                                ELSE LET r == Scan(cfg, s, first + (i - 1) * m, m, Tail(L))
                                     IN outer(r.carry, i + 1, outs \o r.outs)
       IN outer(S, 1, <<>>)

Run(cfg, Sinit) ==
  LET n == Steps(cfg)
      len == IF cfg.L = NoLayout THEN n ELSE Prod(cfg.L)
      r == Scan(cfg, Sinit, 1, len, IF cfg.L = NoLayout THEN <<n>> ELSE cfg.L)
      flat == Scan(cfg, Sinit, 1, n, <<n>>)
  IN [recs |-> <<Rec(Sinit)>> \o SubSeq(r.outs, 1, n),        \* column 0 = initial state, column k = after k steps
      ret  |-> IF AS_CODED_RET THEN r.carry ELSE flat.carry,   \* the state at the last returned time point
      n    |-> n]

Configs == [tin : 1..MaxIn, tmax : 0..(MaxIn + 1), two : BOOLEAN, clamp : BOOLEAN, dat : BOOLEAN, L : Layouts \cup {NoLayout}, off : {0}]

VARIABLES cfg, phase, obs, n1
ivars == <<cfg, phase, obs, n1>>
Init == cfg = [tin |-> 1, tmax |-> 0, two |-> FALSE, clamp |-> FALSE, dat |-> FALSE, L |-> NoLayout, off |-> 0]
        /\ phase = "choose" /\ obs = <<>> /\ n1 = 0
Choose(c) == /\ phase = "choose" /\ c \in Configs
             /\ cfg' = c /\ phase' = (IF Refused(c) THEN "refused" ELSE "chosen") /\ UNCHANGED <<obs, n1>>
\* one integrate(..., return_states=True) call
Observe == /\ phase = "chosen" /\ obs' = Run(cfg, S0) /\ phase' = "observed" /\ UNCHANGED <<cfg, n1>>
\* the same run split in two calls: k steps, then the rest from the returned states (t_max not given, no layout)
Split(k) == /\ phase = "observed" /\ cfg.tmax = 0 /\ cfg.L = NoLayout /\ k \in 1..(cfg.tin - 1)
            /\ n1' = k /\ phase' = "split" /\ UNCHANGED <<cfg, obs>>
Next == (\E c \in Configs : Choose(c)) \/ Observe \/ (\E k \in 1..MaxIn : Split(k))
Spec == Init /\ [][Next]_ivars

(* ------------------------------ properties ------------------------------ *)
\* C08: a data-fed stimulus adds its charge to exactly its own compartment, next to the static inputs of others
DataStimulusLandsOnItsCompartment ==
  phase = "observed" => \A k \in 1..obs.n :
     obs.recs[k + 1][1] - obs.recs[k][1] = 1 + K0 * (IF cfg.dat /\ k <= cfg.tin THEN Amp3(k) ELSE 0)
Flat(c) == [c EXCEPT !.L = NoLayout]
\* C06: any checkpoint layout returns the recordings of the plain run
LayoutOrderIsIdentity == phase = "observed" => obs.recs = Run(Flat(cfg), S0).recs
\* C07: the returned state is the state at the last returned time point
ReturnedStateIsLastReturned == phase = "observed" => Rec(obs.ret) = obs.recs[obs.n + 1]
\* C07: n1 + n2 steps in one call = n1 steps, then n2 steps from the returned state
Composition ==
  phase = "split" =>
    LET a == Run([cfg EXCEPT !.tin = n1], S0)
        b == Run([cfg EXCEPT !.tin = cfg.tin - n1, !.off = n1], a.ret)
    IN a.recs \o Tail(b.recs) = obs.recs /\ b.ret = obs.ret
\* C08: sample k acts during step k (column k - column k-1 of compartment 1 is K1 * amplitude of sample k)
SampleKActsInStepK ==
  phase = "observed" => \A k \in 1..obs.n :
     obs.recs[k + 1][2] - obs.recs[k][2] = K1 * (IF k <= cfg.tin THEN Amp(k) + (IF cfg.two THEN Amp2(k) ELSE 0) ELSE 0)
\* C08: a clamped state equals its clamp value at every returned time point after the first
ClampHolds == (phase = "observed" /\ cfg.clamp) => \A k \in 1..obs.n : obs.recs[k + 1][3] = Cl(k)
\* C08: the counter state shows that column k is the state after exactly k steps
ColumnKIsAfterKSteps == phase = "observed" => \A k \in 0..obs.n : obs.recs[k + 1][4] = k /\ (cfg.dat \/ obs.recs[k + 1][1] = k)
=============================================================================

SPECIFICATION Spec
CONSTANTS
  Layouts <- MCLayouts
  Grads <- MCGrads
  MaxSteps = 3
INVARIANT StructurePreserved
INVARIANT EntriesIndependent
INVARIANT SameNameSameStep
INVARIANT DifferentNameDifferentStep
INVARIANT ZeroStays
PROPERTY LayoutFixed
CONSTRAINT Emit
CHECK_DEADLOCK FALSE

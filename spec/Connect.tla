------------------------------- MODULE Connect -------------------------------
(***************************************************************************)
(* The connectivity builders of connect.py as actions whose random draws    *)
(* are nondeterministic choices.  A network is a sequence of cells with     *)
(* their compartment counts; populations are ordered lists of cell indices. *)
(* Every builder call yields a bag of (pre cell, post cell) pairs; the      *)
(* presynaptic site is the first compartment of the pre cell, the           *)
(* postsynaptic site any compartment of the post cell.                      *)
(*   FullyConnect : exactly one synapse per (pre, post) pair                *)
(*   MatrixConnect: one synapse per TRUE entry of the matrix                *)
(*   SparseConnect: ANY outcome of the draws (number of connections, then   *)
(*                  one pre and one post cell per connection), and the call *)
(*                  succeeds for every outcome (zero and one included)      *)
(* The harness forces the draws of the real code to each outcome TLC        *)
(* enumerates (numpy.random.binomial / choice are patched inside the call)  *)
(* and, in the other direction, checks that outcomes under real seeds are   *)
(* outcomes this specification allows.                                      *)
(***************************************************************************)
EXTENDS Naturals, Sequences, FiniteSets, TLC, Json

CONSTANTS NCompOfCell,   \* <<1, 3, 2, 2>>: compartments per cell (cell 1 has two branches, see harness)
          Pops,          \* set of populations (sequences of 0-based cell indices)
          MaxDraws       \* sparse_connect: number of sampled connections explored (0..MaxDraws)

NCells == Len(NCompOfCell)
RECURSIVE SumTo(_)
SumTo(c) == IF c = 0 THEN 0 ELSE SumTo(c - 1) + NCompOfCell[c]
FirstComp(c) == SumTo(c)                         \* 0-based global index of the first compartment of cell c (0-based)
CompsOf(c) == FirstComp(c)..(FirstComp(c) + NCompOfCell[c + 1] - 1)

VARIABLES call, pairs
cvars == <<call, pairs>>
Init == call = [kind |-> "none"] /\ pairs = <<>>

RECURSIVE Flatten(_)
Flatten(ss) == IF ss = <<>> THEN <<>> ELSE Head(ss) \o Flatten(Tail(ss))
FullyConnect(PRE, POST) ==
  /\ call' = [kind |-> "full", pre |-> PRE, post |-> POST]
  /\ pairs' = Flatten([i \in 1..Len(PRE) |-> [j \in 1..Len(POST) |-> <<PRE[i], POST[j]>>]])
MatrixConnect(PRE, POST, M) ==
  /\ call' = [kind |-> "matrix", pre |-> PRE, post |-> POST, m |-> M]
  /\ pairs' = Flatten([i \in 1..Len(PRE) |-> SelectSeq([j \in 1..Len(POST) |-> IF M[i][j] THEN <<PRE[i], POST[j]>> ELSE <<>>],
                                                       LAMBDA x : x # <<>>)])
SparseConnect(PRE, POST, pd, qd) ==       \* pd, qd: the drawn pre / post cells, one per sampled connection
  /\ call' = [kind |-> "sparse", pre |-> PRE, post |-> POST, pd |-> pd, qd |-> qd]
  /\ pairs' = [k \in 1..Len(pd) |-> <<pd[k], qd[k]>>]
Range(s) == {s[i] : i \in DOMAIN s}
Next ==
  /\ call.kind = "none"
  /\ \E PRE \in Pops, POST \in Pops :
       \/ FullyConnect(PRE, POST)
       \/ \E M \in [1..Len(PRE) -> [1..Len(POST) -> BOOLEAN]] : MatrixConnect(PRE, POST, M)
       \/ \E n \in 0..MaxDraws : \E pd \in [1..n -> Range(PRE)], qd \in [1..n -> Range(POST)] : SparseConnect(PRE, POST, pd, qd)
Spec == Init /\ [][Next]_cvars

(* ------------------------------ properties ------------------------------ *)
Count(p) == Cardinality({k \in DOMAIN pairs : pairs[k] = p})
ExactlyOnePerPair == call.kind = "full" => \A i \in DOMAIN call.pre, j \in DOMAIN call.post : Count(<<call.pre[i], call.post[j]>>) = 1
OnePerTrueEntry == call.kind = "matrix" =>
   \A i \in DOMAIN call.pre, j \in DOMAIN call.post : Count(<<call.pre[i], call.post[j]>>) = (IF call.m[i][j] THEN 1 ELSE 0)
WithinPopulations == call.kind # "none" => \A k \in DOMAIN pairs : pairs[k][1] \in Range(call.pre) /\ pairs[k][2] \in Range(call.post)
NoExtraEdges == call.kind = "full" => Len(pairs) = Len(call.pre) * Len(call.post)
Emit == call.kind # "none" => PrintT(<<"CALL", ToJson([call |-> call, pairs |-> pairs])>>)
ASSUME PrintT(<<"NET", ToJson([ncomp |-> NCompOfCell, first |-> [c \in 0..(NCells - 1) |-> FirstComp(c)]])>>)
=============================================================================

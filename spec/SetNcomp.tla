------------------------------ MODULE SetNcomp ------------------------------
(***************************************************************************)
(* set_ncomp(n) on one branch of a cell (base.py: set_ncomp): the branch's  *)
(* rows are replaced by n rows of length L_b / n, every other column is the *)
(* (uniform) value of the branch, later rows are renumbered; named groups   *)
(* are BRANCH memberships and survive.  The refinement statement           *)
(*     SetNcomp(Build(shape), b, n)  ==  Build(shape with ncomp[b] = n)     *)
(* is what the harness checks on the real tables and in simulation: the     *)
(* abstract state below IS the shape, so every reachable state names the    *)
(* directly built module the edited one must be indistinguishable from.     *)
(* Guards as coded: no inputs / recordings / trainables; not a network;     *)
(* the view is a branch and not the whole cell (refused for a one-branch    *)
(* cell); uniform properties within the branch.                             *)
(***************************************************************************)
EXTENDS Naturals, Sequences, FiniteSets, TLC, Json

CONSTANTS Parents,    \* parent vector of the cell (0 = root), fixed
          Init0,      \* initial compartment counts
          NMax, MaxCalls,
          GroupBranches   \* [groupname |-> set of branches] created (through branch views) before the first call

VARIABLES ncomp, calls
NB == Len(Parents)
Offs(nc, b) == LET RECURSIVE go(_) go(i) == IF i = 0 THEN 0 ELSE go(i - 1) + nc[i] IN go(b - 1)
RowsOfBranch(nc, b) == Offs(nc, b)..(Offs(nc, b) + nc[b] - 1)             \* 0-based global compartment indices
GroupRows(nc, g) == UNION {RowsOfBranch(nc, b) : b \in GroupBranches[g]}

Init == ncomp = Init0 /\ calls = <<>>
SetNcomp(b, n) ==
  /\ Len(calls) < MaxCalls /\ NB > 1
  /\ ncomp' = [ncomp EXCEPT ![b] = n]
  /\ calls' = Append(calls, <<b, n>>)
Next == \E b \in 1..NB, n \in 1..NMax : SetNcomp(b, n)
Spec == Init /\ [][Next]_<<ncomp, calls>>

\* what must hold of the tables in every state (stated on the abstract shape)
RECURSIVE Sum(_)
Sum(s) == IF s = <<>> THEN 0 ELSE Head(s) + Sum(Tail(s))
ContiguousRows == UNION {RowsOfBranch(ncomp, b) : b \in 1..NB} = 0..(Sum(ncomp) - 1)
GroupsAreWholeBranches == \A g \in DOMAIN GroupBranches : \A b \in 1..NB :
   (RowsOfBranch(ncomp, b) \cap GroupRows(ncomp, g) # {}) => RowsOfBranch(ncomp, b) \subseteq GroupRows(ncomp, g)
OthersUntouched == [][\A b \in 1..NB : (\E n \in 1..NMax : calls' = Append(calls, <<b, n>>)) => \A o \in 1..NB : o # b => ncomp'[o] = ncomp[o]]_<<ncomp, calls>>
Emit == PrintT(<<"SHAPE", ToJson([parents |-> Parents, ncomp |-> ncomp, calls |-> calls,
                                  groups |-> [g \in DOMAIN GroupBranches |-> GroupRows(ncomp, g)]])>>)
=============================================================================

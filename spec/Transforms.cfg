SPECIFICATION Spec
INVARIANT ChainIsBijection
INVARIANT MaskRoundTrip
INVARIANT EachEntryItsOwnTransform
CONSTRAINT Emit
CHECK_DEADLOCK FALSE
INVARIANT ExcludedEntriesPassThrough
INVARIANT PartialRoundTrip

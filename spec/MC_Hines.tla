------------------------------ MODULE MC_Hines ------------------------------
(***************************************************************************)
(* Model-checking harness for Field/Morph/Cable/Hines/Csc: TLC enumerates   *)
(* every forest with <= NB branches (cells and networks, every sibling      *)
(* order) and every compartment-count vector in 1..NC as a Next step (so    *)
(* the workers share the enumeration), runs the solver machine on each and  *)
(* checks the C01/C02 identities at Done.  MODE selects which identities    *)
(* are evaluated (they differ a lot in cost).                               *)
(***************************************************************************)
EXTENDS Csc, Json

CONSTANTS TREES_ONLY,     \* TRUE: single cells only
          EMIT            \* TRUE: print one line per configuration for the evaluator cross-check

ChooseConfig ==
  /\ pc = "Choose"
  /\ \E n \in 1..NB :
       /\ parents' \in (IF TREES_ONLY THEN TreeVecs(n) ELSE ForestVecs(n))
       /\ ncomp' \in [1..n -> 1..NC]
       /\ blab' = [b \in 1..n |-> b]
  /\ pc' = "Config"
  /\ UNCHANGED <<lvl, st>>

Init == /\ parents = <<0>> /\ ncomp = <<1>> /\ blab = <<1>>
        /\ pc = "Choose" /\ lvl = 0 /\ st = [deg |-> FALSE]
Next == ChooseConfig \/ HinesNext
Spec == Init /\ [][Next]_hvars

(* ------------------------------ C02 identities -------------------------- *)
AtDone == pc = "Done" /\ NonDegenerate(st)
\* total charge changes by exactly dt * (injected - membrane current), evaluated at the new voltages
Conservation ==
  AtDone => LET x == Solution IN
    SumOver(Comps, LAMBDA c : Mul(Cap(c), Sub(x[c], v0(c)))) = Mul(dt, SumOver(Comps, LAMBDA c : Memb(x, Inj0, c)))
\* a unit point current (1 nA) at i changes v' at j exactly as the same current at j changes v' at i
InjectAt(i) == [c \in Comps |-> IF c = i THEN Add(Iext(c), 1) ELSE Iext(c)]
Reciprocity ==
  AtDone => LET x0 == Solution
                resp == [i \in Comps |-> SolveSt(dt, RhsPA(V0, InjectAt(i), dt))]
            IN \A i, j \in Comps :
                 (i < j /\ ~resp[i].deg /\ ~resp[j].deg)
                   => Sub(Extract(resp[i])[j], x0[j]) = Sub(Extract(resp[j])[i], x0[i])
\* a uniform voltage U with reversal U everywhere (em = gm * U) and no stimulus stays uniform
Uu == Rnd(4242)
UniformStaysUniform ==
  AtDone => LET rhs == [c \in Comps |-> Add(Uu, Mul(dt, Mul(VT(c), Uu)))]
                t == SolveSt(dt, rhs)
            IN ~t.deg => \A c \in Comps : Extract(t)[c] = Uu
\* sign structure: every compartment row of the per-area matrix has row sum 1 + dt*VT, and every
\* off-diagonal entry is -(a subtraction-free expression of the positive parameters)
RowSumIdentity ==
  pc = "Config" => \A c \in Comps :
     Sub(DiagC(dt, c), Add(Mul(dt, SumOver(Neigh(c), LAMBDA j : C2C(c, j))),
                           Add(IF IsParentEnd(c) THEN Mul(dt, BP2C(c)) ELSE 0,
                               IF IsChildStart(c) THEN Mul(dt, BP2C(c)) ELSE 0)))
       = Add(1, Mul(dt, VT(c)))
PerAreaIsSI == pc = "Config" => (ParamsOK => PerAreaEqualsSI)

\* one bounded line per configuration: the evaluator must reproduce these numbers exactly
Emit == (EMIT /\ pc \in {"Done", "Refused"}) =>
          PrintT(<<"CFG", ToJson([parents |-> parents, ncomp |-> ncomp, seed |-> SEED, pc |-> pc,
                                  ok |-> IF pc = "Done" THEN NonDegenerate(st) ELSE ParamsOK,
                                  sol |-> IF pc = "Done" THEN Solution ELSE <<>>,
                                  dt |-> dt, accepts |-> Accepts])>>)
=============================================================================

------------------------------ MODULE MC_Hines ------------------------------
(***************************************************************************)
(* Model-checking harness for Field/Morph/Cable/Hines/Csc: TLC enumerates   *)
(* every forest with <= NB branches (cells and networks, every sibling      *)
(* order) and every compartment-count vector in 1..NC as a Next step (so    *)
(* the workers share the enumeration), runs the solver machine on each and  *)
(* checks the C01/C02 identities at Done.  MODE selects which identities    *)
(* are evaluated (they differ a lot in cost).                               *)
(***************************************************************************)
EXTENDS Csc, Json

CONSTANTS TREES_ONLY,     \* TRUE: single cells only
          EMIT,           \* TRUE: print one line per configuration for the evaluator cross-check
          METAMORPHIC     \* TRUE: after Done, re-run on a derived configuration (C12: Isolate a cell, swap leaf siblings)

VARIABLES phase,          \* "first" | "isolated" | "swapped"
          prev            \* solution of the first run, keyed by the compartments' parameter keys

ChooseConfig ==
  /\ pc = "Choose"
  /\ \E n \in 1..NB :
       /\ parents' \in (IF TREES_ONLY THEN TreeVecs(n) ELSE ForestVecs(n))
       /\ ncomp' \in [1..n -> 1..NC]
       /\ blab' = [b \in 1..n |-> b]
  /\ pc' = "Config"
  /\ UNCHANGED <<lvl, st, phase, prev>>

(* C12: metamorphic re-runs.  Parameters follow the branch labels (blab), so the derived configuration  *)
(* carries exactly the same physical compartments.                                                      *)
Keyed == [k \in {Key(c) : c \in Comps} |-> Solution[CHOOSE c \in Comps : Key(c) = k]]
BranchesOfCell(c) == {b \in Branches : CellOf(b) = c}
\* simulate cell c of the network on its own
Isolate(c) ==
  LET B == BranchesOfCell(c)  lo == Min(B)  n == Cardinality(B) IN
  /\ METAMORPHIC /\ pc = "Done" /\ phase = "first" /\ NCells > 1 /\ NonDegenerate(st)
  /\ parents' = [i \in 1..n |-> IF parents[lo + i - 1] = 0 THEN 0 ELSE parents[lo + i - 1] - lo + 1]
  /\ ncomp' = [i \in 1..n |-> ncomp[lo + i - 1]]
  /\ blab' = [i \in 1..n |-> blab[lo + i - 1]]
  /\ prev' = Keyed /\ phase' = "isolated" /\ pc' = "Config" /\ UNCHANGED <<lvl, st>>
\* list two sibling leaf branches in the other order
IsLeaf(b) == Children(b) = {}
SwapLeafSiblings(b1, b2) ==
  /\ METAMORPHIC /\ pc = "Done" /\ phase = "first" /\ NonDegenerate(st)
  /\ b1 < b2 /\ parents[b1] = parents[b2] /\ parents[b1] # 0 /\ IsLeaf(b1) /\ IsLeaf(b2)
  /\ ncomp' = [ncomp EXCEPT ![b1] = ncomp[b2], ![b2] = ncomp[b1]]
  /\ blab' = [blab EXCEPT ![b1] = blab[b2], ![b2] = blab[b1]]
  /\ prev' = Keyed /\ phase' = "swapped" /\ pc' = "Config" /\ UNCHANGED <<parents, lvl, st>>
Meta == (\E c \in 1..NB : c <= NCells /\ Isolate(c)) \/ (\E b1, b2 \in 1..NB : b1 \in Branches /\ b2 \in Branches /\ SwapLeafSiblings(b1, b2))

Init == /\ parents = <<0>> /\ ncomp = <<1>> /\ blab = <<1>>
        /\ pc = "Choose" /\ lvl = 0 /\ st = [deg |-> FALSE]
        /\ phase = "first" /\ prev = <<>>
\* one named disjunct per solver phase (TLC attributes coverage to the named disjuncts of Next)
Keep == UNCHANGED <<phase, prev>>
SAssemble == Assemble /\ Keep
STriangLevel == TriangLevel /\ Keep
SElimChildrenLower == ElimChildrenLower /\ Keep
SElimParentsUpper == ElimParentsUpper /\ Keep
STriangRoot == TriangRoot /\ Keep
SBacksubRoot == BacksubRoot /\ Keep
SElimParentsLower == ElimParentsLower /\ Keep
SElimChildrenUpper == ElimChildrenUpper /\ Keep
SBacksubLevel == BacksubLevel /\ Keep
Next == ChooseConfig \/ SAssemble \/ STriangLevel \/ SElimChildrenLower \/ SElimParentsUpper \/ STriangRoot \/ SBacksubRoot
        \/ SElimParentsLower \/ SElimChildrenUpper \/ SBacksubLevel \/ Meta
Spec == Init /\ [][Next]_<<hvars, phase, prev>>
\* C12: a cell inside a network without synapses behaves exactly like the cell alone; listing sibling
\* branches in a different order permutes the solution and changes nothing else
MetamorphicAgrees ==
  (pc = "Done" /\ phase # "first" /\ NonDegenerate(st)) => \A c \in Comps : Solution[c] = prev[Key(c)]

(* ------------------------------ C02 identities -------------------------- *)
AtDone == pc = "Done" /\ NonDegenerate(st)
\* total charge changes by exactly dt * (injected - membrane current), evaluated at the new voltages
Conservation ==
  AtDone => LET x == Solution IN
    SumOver(Comps, LAMBDA c : Mul(Cap(c), Sub(x[c], v0(c)))) = Mul(dt, SumOver(Comps, LAMBDA c : Memb(x, Inj0, c)))
\* a unit point current (1 nA) at i changes v' at j exactly as the same current at j changes v' at i
InjectAt(i) == [c \in Comps |-> IF c = i THEN Add(Iext(c), 1) ELSE Iext(c)]
Reciprocity ==
  AtDone => LET x0 == Solution
                resp == [i \in Comps |-> SolveSt(dt, RhsPA(V0, InjectAt(i), dt))]
            IN \A i, j \in Comps :
                 (i < j /\ ~resp[i].deg /\ ~resp[j].deg)
                   => Sub(Extract(resp[i])[j], x0[j]) = Sub(Extract(resp[j])[i], x0[i])
\* a uniform voltage U with reversal U everywhere (em = gm * U) and no stimulus stays uniform
Uu == Rnd(4242)
UniformStaysUniform ==
  AtDone => LET rhs == [c \in Comps |-> Add(Uu, Mul(dt, Mul(VT(c), Uu)))]
                t == SolveSt(dt, rhs)
            IN ~t.deg => \A c \in Comps : Extract(t)[c] = Uu
\* sign structure: every compartment row of the per-area matrix has row sum 1 + dt*VT, and every
\* off-diagonal entry is -(a subtraction-free expression of the positive parameters)
RowSumIdentity ==
  pc = "Config" => \A c \in Comps :
     Sub(DiagC(dt, c), Add(Mul(dt, SumOver(Neigh(c), LAMBDA j : C2C(c, j))),
                           Add(IF IsParentEnd(c) THEN Mul(dt, BP2C(c)) ELSE 0,
                               IF IsChildStart(c) THEN Mul(dt, BP2C(c)) ELSE 0)))
       = Add(1, Mul(dt, VT(c)))
PerAreaIsSI == pc = "Config" => (ParamsOK => PerAreaEqualsSI)

\* one bounded line per configuration: the evaluator must reproduce these numbers exactly
Emit == (EMIT /\ pc \in {"Done", "Refused"}) =>
          PrintT(<<"CFG", ToJson([parents |-> parents, ncomp |-> ncomp, seed |-> SEED, pc |-> pc,
                                  ok |-> IF pc = "Done" THEN NonDegenerate(st) ELSE ParamsOK,
                                  sol |-> IF pc = "Done" THEN Solution ELSE <<>>,
                                  dt |-> dt, accepts |-> Accepts, phase |-> phase, blab |-> blab])>>)
=============================================================================

------------------------------- MODULE Morph -------------------------------
(***************************************************************************)
(* Morphologies: forests of branches.  A module (cell or network) is a      *)
(* sequence of branches; parents[b] = 0 marks the root branch of a new      *)
(* cell, otherwise parents[b] < b is a branch of the same cell.  Every      *)
(* branch b has ncomp[b] >= 1 compartments.  Compartments are numbered      *)
(* 1..NComps branch after branch (jaxley: global_comp_index + 1); branch    *)
(* points are zero-capacitance nodes, one per branch that has children,     *)
(* numbered after ALL compartments in the order of their parent branch      *)
(* (jaxley: np.unique(par_inds), network: branch points after all comps).   *)
(***************************************************************************)
EXTENDS Field

CONSTANTS NB,   \* maximal number of branches in the module
          NC    \* maximal number of compartments per branch

VARIABLES parents, ncomp

nb       == Len(parents)
Branches == 1..nb
Roots    == {b \in Branches : parents[b] = 0}
CellOf(b) == Cardinality({r \in Roots : r <= b})                    \* 1-based cell number
NCells   == Cardinality(Roots)
Level[b \in 1..NB] == IF b > nb THEN 0 ELSE IF parents[b] = 0 THEN 0 ELSE Level[parents[b]] + 1
MaxLevel == Max({Level[b] : b \in Branches})
AtLevel(lv) == {b \in Branches : Level[b] = lv}

Offs[b \in 1..(NB + 1)] == IF b = 1 THEN 0 ELSE Offs[b - 1] + (IF b - 1 <= nb THEN ncomp[b - 1] ELSE 0)
NComps   == Offs[nb + 1]
Comps    == 1..NComps
Comp(b, k) == Offs[b] + k                                   \* k-th compartment of branch b
BranchOf[c \in 1..(NB * NC)] == CHOOSE b \in Branches : c > Offs[b] /\ c <= Offs[b] + ncomp[b]
CFirst(b) == Comp(b, 1)
CLast(b)  == Comp(b, ncomp[b])

ParentBranches == {parents[b] : b \in Branches} \ {0}        \* one branch point per element
Children(p)    == {b \in Branches : parents[b] = p}
BpRank(p)      == Cardinality({q \in ParentBranches : q < p}) + 1
NBp            == Cardinality(ParentBranches)
BpNode(p)      == NComps + BpRank(p)                          \* node id in the extended system
NNodes         == NComps + NBp

\* neighbours of a compartment inside its branch
Neigh(c) == LET b == BranchOf[c] IN
            (IF c > CFirst(b) THEN {c - 1} ELSE {}) \cup (IF c < CLast(b) THEN {c + 1} ELSE {})
IsParentEnd(c) == LET b == BranchOf[c] IN c = CLast(b) /\ b \in ParentBranches
IsChildStart(c) == LET b == BranchOf[c] IN c = CFirst(b) /\ parents[b] # 0

(* all forests with n branches: cells are contiguous, parents precede children *)
LastRootBefore(p, b) == Max({r \in 1..(b - 1) : p[r] = 0})
ForestVecs(n) == {p \in [1..n -> 0..(n - 1)] :
                    /\ p[1] = 0
                    /\ \A b \in 2..n : p[b] < b /\ (p[b] # 0 => p[b] >= LastRootBefore(p, b))}
TreeVecs(n)   == {p \in ForestVecs(n) : \A b \in 2..n : p[b] # 0}

(***************************************************************************)
(* The typed compartment-edge list of cell.py/network.py                    *)
(* (_init_morph_jax_spsolve), in the code's row order:                      *)
(*   type 0  compartment <-> compartment inside a branch (per branch: all   *)
(*           "upward" edges k -> k+1, then all "downward" edges k+1 -> k)   *)
(*   type 1  branch point -> last compartment of the parent branch          *)
(*   type 2  branch point -> first compartment of a child branch            *)
(*   type 3  parent compartment -> branch point,  type 4  child -> bp       *)
(* Networks list type 0 of all cells, then per cell (1s, 2s), then per cell *)
(* (3s, 4s).  Each edge is [src |-> node, snk |-> node, ty |-> 0..4].       *)
(***************************************************************************)
RECURSIVE SeqOfSet(_)          \* ascending sequence of a finite set of naturals
SeqOfSet(S) == IF S = {} THEN <<>> ELSE LET m == Min(S) IN <<m>> \o SeqOfSet(S \ {m})
RECURSIVE Concat(_)
Concat(ss) == IF ss = <<>> THEN <<>> ELSE Head(ss) \o Concat(Tail(ss))

T0OfBranch(b) == [k \in 1..(ncomp[b] - 1) |-> [src |-> Comp(b, k), snk |-> Comp(b, k + 1), ty |-> 0]]
              \o [k \in 1..(ncomp[b] - 1) |-> [src |-> Comp(b, k + 1), snk |-> Comp(b, k), ty |-> 0]]
T0Edges == Concat([b \in Branches |-> T0OfBranch(b)])
CellsSeq == SeqOfSet({CellOf(b) : b \in Branches})
ParentsOfCell(c)  == SeqOfSet({p \in ParentBranches : CellOf(p) = c})
ChildrenOfCell(c) == SeqOfSet({b \in Branches : parents[b] # 0 /\ CellOf(b) = c})
T12OfCell(c) == LET ps == ParentsOfCell(c)  cs == ChildrenOfCell(c) IN
                  [i \in 1..Len(ps) |-> [src |-> BpNode(ps[i]), snk |-> CLast(ps[i]), ty |-> 1]]
               \o [i \in 1..Len(cs) |-> [src |-> BpNode(parents[cs[i]]), snk |-> CFirst(cs[i]), ty |-> 2]]
Flip(e, t) == [src |-> e.snk, snk |-> e.src, ty |-> t]
T34OfCell(c) == LET es == T12OfCell(c) IN [i \in 1..Len(es) |-> Flip(es[i], es[i].ty + 2)]
CompEdges == T0Edges \o Concat([i \in 1..Len(CellsSeq) |-> T12OfCell(CellsSeq[i])])
                     \o Concat([i \in 1..Len(CellsSeq) |-> T34OfCell(CellsSeq[i])])
=============================================================================

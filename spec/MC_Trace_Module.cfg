SPECIFICATION TraceSpec
CONSTANTS
  BranchOfRow <- BranchOfRowMC
  Views <- ViewsMC
  K <- KMC
  T = 2
  MaxDepth = 100000
  AS_CODED_PAD = FALSE
  AS_CODED_DEL = FALSE
CONSTRAINT Progress
CHECK_DEADLOCK FALSE

---------------------------- MODULE JaxleyModule ----------------------------
(***************************************************************************)
(* The tables of a jaxley module and every public editing call as one       *)
(* atomic action (base.py: insert, delete_channel, set, make_trainable,     *)
(* delete_trainables, add_to_group, record, delete_recordings, stimulate,   *)
(* clamp, delete_stimuli, delete_clamps; integrate as an observing action). *)
(*                                                                         *)
(* Abstract state: all table cells are small integers, NaN is the sentinel  *)
(* -1; rows are global compartment indices 0..N-1.  Each action is applied  *)
(* through a VIEW of the catalogue `Views`: [rows, by] where `by` says how  *)
(* make_trainable groups the rows (controlled_by_param): "one" (module),    *)
(* "branch", "comp" (also select(): every row its own parameter).  The      *)
(* harness obtains the same view with a selector chain and checks that the  *)
(* chain denotes exactly `rows` (C11) before it applies the call.           *)
(*                                                                         *)
(* Mechanisms: probe channels A and B.  A owns the columns A_g (parameter)   *)
(* and A_s (state), B owns B_g; both use the SHARED parameter column `sh`.  *)
(* Their currents are constant densities, so that the simulated voltages    *)
(* are integers computable from the tables alone (Obs below).               *)
(***************************************************************************)
EXTENDS Naturals, Integers, FiniteSets, Sequences, TLC

CONSTANTS BranchOfRow,   \* sequence: BranchOfRow[r + 1] = branch of row r
          Views,         \* [viewname |-> [rows |-> set, by |-> "one" | "branch" | "comp"]]
          MaxDepth,
          AS_CODED_PAD,  \* TRUE: padding index -1 of unequal trainable groups writes the last row (F2)
          AS_CODED_DEL   \* TRUE: delete_channel clears/drops shared columns as the code did (F10)

N == Len(BranchOfRow)
Rows == 0..(N - 1)
BranchOf(r) == BranchOfRow[r + 1]
LastRow == N - 1
NaN == 0 - 1
ViewNames == DOMAIN Views

Chans == {"A", "B"}
OwnParams == [A |-> {"A_g"}, B |-> {"B_g"}]
OwnStates == [A |-> {"A_s"}, B |-> {}]
Shared == {"sh"}
OwnCols(ch) == OwnParams[ch] \cup OwnStates[ch]
AllColsOf(ch) == OwnCols(ch) \cup Shared
CurName == [A |-> "i_A", B |-> "i_B"]
BaseCols == {"radius", "v"}
ChanCols == {"A_g", "A_s", "B_g", "sh"}
Keys == BaseCols \cup ChanCols
DefaultOf(k) == IF k = "radius" THEN 1 ELSE 0
StateKeys == {"v", "A_s"}                      \* keys that get_all_states serves (initial states)
ExtKeys == {"i", "v", "A_s"}                   \* stimulus, voltage clamp, clamp of a channel state
RecStates == {"v", "A_s", "i_A"}
GroupNames == {"g1", "g2"}

VARIABLES has,      \* [Rows -> SUBSET Chans]
          col,      \* [Keys -> [Rows -> Int]]
          colset,   \* columns that exist in .nodes
          reg,      \* sequence of registered channel names (.channels)
          curs,     \* sequence of membrane current names
          groups,   \* [GroupNames -> SUBSET Rows]   ({} = does not exist)
          recs,     \* sequence of <<row, state>>
          ext,      \* [ExtKeys -> Seq(<<row, input id>>)]
          nin,      \* number of inputs created so far (ids are 1, 2, ...)
          trains,   \* sequence of [key, groups : set of row sets, val]
          depth
mvars == <<has, col, colset, reg, curs, groups, recs, ext, nin, trains, depth>>

MInit == /\ has = [r \in Rows |-> {}]
         /\ col = [k \in Keys |-> [r \in Rows |-> IF k \in BaseCols THEN DefaultOf(k) ELSE NaN]]
         /\ colset = BaseCols
         /\ reg = <<>> /\ curs = <<>>
         /\ groups = [g \in GroupNames |-> {}]
         /\ recs = <<>>
         /\ ext = [k \in ExtKeys |-> <<>>]
         /\ nin = 0
         /\ trains = <<>>
         /\ depth = 0

Range(s) == {s[i] : i \in DOMAIN s}
Registered == Range(reg)
Tick == depth < MaxDepth /\ depth' = depth + 1
RECURSIVE SeqOfSet(_)
SeqOfSet(S) == IF S = {} THEN <<>> ELSE LET m == CHOOSE x \in S : \A y \in S : x <= y IN <<m>> \o SeqOfSet(S \ {m})
ChansInView(V) == {ch \in Registered : \E r \in V : ch \in has[r]}

(* ------------------------------- channels ------------------------------- *)
\* insert / delete_channel as pure operators on the channel part of the state (so that
\* DeleteUndoesInsert can compose them), and the actions that apply them
Cur == [has |-> has, col |-> col, colset |-> colset, reg |-> reg, curs |-> curs]
InsertOp(S, ch, V) ==
  [ has    |-> [r \in Rows |-> IF r \in V THEN S.has[r] \cup {ch} ELSE S.has[r]],
    col    |-> [k \in Keys |-> [r \in Rows |-> IF r \in V /\ k \in AllColsOf(ch) THEN DefaultOf(k) ELSE S.col[k][r]]],
    colset |-> S.colset \cup AllColsOf(ch),
    reg    |-> IF ch \in Range(S.reg) THEN S.reg ELSE Append(S.reg, ch),
    curs   |-> IF CurName[ch] \in Range(S.curs) THEN S.curs ELSE Append(S.curs, CurName[ch]) ]
DeleteOp(S, ch, V) ==
  LET hasAfter == [r \in Rows |-> IF r \in V THEN S.has[r] \ {ch} ELSE S.has[r]]
      gone == \A r \in Rows : ch \notin hasAfter[r]
      regAfter == IF gone THEN SelectSeq(S.reg, LAMBDA x : x # ch) ELSE S.reg
      stillUsed(k) == \E o \in Range(regAfter) : k \in AllColsOf(o)
      dropCols == IF ~gone THEN {}
                  ELSE IF AS_CODED_DEL THEN AllColsOf(ch)
                  ELSE OwnCols(ch) \cup {k \in Shared : ~stillUsed(k)}
      \* columns that become NaN in row r of the view: only where the channel was, and a shared
      \* column only if no remaining channel of that row uses it
      clear(r) == IF AS_CODED_DEL THEN AllColsOf(ch)
                  ELSE IF ch \notin S.has[r] THEN {}
                  ELSE OwnCols(ch) \cup {k \in Shared : ~ \E o \in hasAfter[r] : k \in AllColsOf(o)}
  IN
  [ has    |-> hasAfter,
    col    |-> [k \in Keys |-> [r \in Rows |->
                 IF k \in dropCols THEN NaN
                 ELSE IF r \in V /\ k \in clear(r) THEN NaN
                 ELSE S.col[k][r]]],
    colset |-> S.colset \ dropCols,
    reg    |-> regAfter,
    curs   |-> IF gone THEN SelectSeq(S.curs, LAMBDA x : x # CurName[ch]) ELSE S.curs ]
Become(S) == has' = S.has /\ col' = S.col /\ colset' = S.colset /\ reg' = S.reg /\ curs' = S.curs
Insert(ch, vn) ==
  /\ Tick /\ Become(InsertOp(Cur, ch, Views[vn].rows))
  /\ UNCHANGED <<groups, recs, ext, nin, trains>>
\* When the channel disappears from the module its own columns and (unless another channel writes it) its current disappear;
\* recordings and clamps of those names go with them (they used to stay and made integrate raise KeyError: defect F20, repaired).
DeleteChannel(ch, vn) ==
  LET S == DeleteOp(Cur, ch, Views[vn].rows)
      goneKeys == (colset \ S.colset) \cup (IF CurName[ch] \in Range(S.curs) THEN {} ELSE {CurName[ch]})
  IN
  /\ Tick
  /\ \E r \in Views[vn].rows : ch \in has[r]                      \* otherwise ValueError
  /\ Become(S)
  /\ recs' = SelectSeq(recs, LAMBDA p : p[2] \notin goneKeys)
  /\ ext' = [k \in ExtKeys |-> IF k \in goneKeys THEN <<>> ELSE ext[k]]
  /\ UNCHANGED <<groups, nin, trains>>
\* C19: a deletion undoes its insertion (on rows that carried no mechanism before) and leaves
\* every other mechanism as it was
DeleteUndoesInsert ==
  \A ch \in Chans : \A vn \in ViewNames :
     (\A r \in Views[vn].rows : has[r] = {}) => DeleteOp(InsertOp(Cur, ch, Views[vn].rows), ch, Views[vn].rows) = Cur
DeleteKeepsOthers ==
  \A ch \in Chans : \A vn \in ViewNames :
     (\E r \in Views[vn].rows : ch \in has[r]) =>
        LET S == DeleteOp(Cur, ch, Views[vn].rows) IN
        \A o \in Chans \ {ch} : \A r \in Rows :
            /\ (o \in S.has[r]) = (o \in has[r])
            /\ o \in has[r] => \A k \in AllColsOf(o) : k \in S.colset /\ S.col[k][r] = col[k][r]

(* ------------------------------ parameters ------------------------------ *)
Set(k, x, vn) ==
  LET V == Views[vn].rows IN
  /\ Tick
  /\ k \in colset                                     \* otherwise KeyError
  /\ col' = [col EXCEPT ![k] = [r \in Rows |-> IF r \in V /\ col[k][r] # NaN THEN x ELSE col[k][r]]]
  /\ UNCHANGED <<has, colset, reg, curs, groups, recs, ext, nin, trains>>

\* make_trainable: one parameter per group of rows sharing controlled_by_param; NaN rows are skipped
GroupsOf(k, vn) ==
  LET V == {r \in Views[vn].rows : col[k][r] # NaN}
      by == Views[vn].by
      keyOf(r) == IF by = "one" THEN 0 ELSE IF by = "branch" THEN BranchOf(r) ELSE r
  IN {{r \in V : keyOf(r) = g} : g \in {keyOf(r) : r \in V}}
MakeTrainable(k, x, vn) ==
  /\ Tick
  /\ k \in colset
  /\ GroupsOf(k, vn) # {}
  /\ trains' = Append(trains, [key |-> k, groups |-> GroupsOf(k, vn), val |-> x])
  /\ UNCHANGED <<has, col, colset, reg, curs, groups, recs, ext, nin>>

\* delete_trainables through a view removes the parameters (or the parts of them) inside the view
DeleteTrainables(vn) ==
  LET V == Views[vn].rows
      cut(t) == [t EXCEPT !.groups = {G \ V : G \in t.groups} \ {{}}]
      RECURSIVE go(_)
      go(s) == IF s = <<>> THEN <<>>
               ELSE LET t == cut(Head(s)) IN (IF t.groups = {} THEN <<>> ELSE <<t>>) \o go(Tail(s))
  IN
  /\ Tick
  /\ trains' = go(trains)
  /\ UNCHANGED <<has, col, colset, reg, curs, groups, recs, ext, nin>>

\* the value the simulation uses: table column, then every trainable of that key in order
MaxLen(G) == CHOOSE n \in 0..N : (\E g \in G : Cardinality(g) = n) /\ (\A g \in G : Cardinality(g) <= n)
Written(t) == UNION t.groups
              \cup (IF AS_CODED_PAD /\ (\E g \in t.groups : Cardinality(g) < MaxLen(t.groups)) THEN {LastRow} ELSE {})
RECURSIVE Apply(_, _, _)
\* (as coded: a trainable whose column was dropped by delete_channel is dangling and is ignored)
Apply(k, vec, i) == IF i > Len(trains) THEN vec
                    ELSE LET t == trains[i] IN
                         Apply(k, IF t.key = k /\ k \in colset THEN [r \in Rows |-> IF r \in Written(t) THEN t.val ELSE vec[r]] ELSE vec, i + 1)
Eff(k) == Apply(k, col[k], 1)                       \* EffParam / EffState
\* C05: the simulated value of row r IS the value of group G of trainable i exactly on these rows, so the
\* gradient with respect to that shared value is the SUM of the per-row gradients over DEff(i, G) and nothing
\* else (the scatter of trainables, transposed); padding never denotes a row
DEff(i, G) == {r \in G : \A j \in (i + 1)..Len(trains) : trains[j].key # trains[i].key \/ r \notin Written(trains[j])}

\* write_trainables(get_parameters()): the tables now store exactly the values that are simulated
WriteTrainables ==
  /\ Tick
  /\ col' = [k \in Keys |-> IF k \in colset /\ \E i \in DOMAIN trains : trains[i].key = k THEN Eff(k) ELSE col[k]]
  /\ UNCHANGED <<has, colset, reg, curs, groups, recs, ext, nin, trains>>

(* -------------------------------- groups -------------------------------- *)
AddToGroup(g, vn) ==
  /\ Tick
  /\ groups' = [groups EXCEPT ![g] = groups[g] \cup Views[vn].rows]
  /\ UNCHANGED <<has, col, colset, reg, curs, recs, ext, nin, trains>>

(* ------------------------------ recordings ------------------------------ *)
StateKnownIn(s, V) == \/ s \in {"v", "i"}
                      \/ \E ch \in ChansInView(V) : s \in OwnStates[ch] \/ s = CurName[ch]
Record(s, vn) ==
  LET V == Views[vn].rows
      new == SelectSeq([i \in 1..Cardinality(V) |-> <<SeqOfSet(V)[i], s>>], LAMBDA p : p \notin Range(recs))
  IN
  /\ Tick
  /\ StateKnownIn(s, V)                               \* otherwise KeyError
  /\ recs' = recs \o new
  /\ UNCHANGED <<has, col, colset, reg, curs, groups, ext, nin, trains>>
DeleteRecordings(vn) ==
  /\ Tick
  /\ recs' = SelectSeq(recs, LAMBDA p : p[1] \notin Views[vn].rows)
  /\ UNCHANGED <<has, col, colset, reg, curs, groups, ext, nin, trains>>

(* ------------------------------- inputs --------------------------------- *)
\* one new input (a distinguishable integer time series, see Obs) applied to every row of the view
AddInput(key, vn) ==
  LET V == Views[vn].rows IN
  /\ Tick
  /\ nin' = nin + 1
  /\ ext' = [ext EXCEPT ![key] = ext[key] \o [i \in 1..Cardinality(V) |-> <<SeqOfSet(V)[i], nin + 1>>]]
  /\ UNCHANGED <<has, col, colset, reg, curs, groups, recs, trains>>
Stimulate(vn) == AddInput("i", vn)
Clamp(s, vn) == StateKnownIn(s, Views[vn].rows) /\ s \in ExtKeys /\ AddInput(s, vn)
DeleteInputs(key, vn) ==
  /\ Tick
  /\ ext' = [ext EXCEPT ![key] = SelectSeq(ext[key], LAMBDA p : p[1] \notin Views[vn].rows)]
  /\ UNCHANGED <<has, col, colset, reg, curs, groups, recs, nin, trains>>
DeleteStimuli(vn) == DeleteInputs("i", vn)
DeleteClamps(s, vn) == s \in ExtKeys \ {"i"} /\ DeleteInputs(s, vn)

(* ------------------------------ invariants ------------------------------ *)
TypeOK ==
  /\ \A r \in Rows : has[r] \subseteq Registered
  /\ colset \subseteq Keys /\ BaseCols \subseteq colset
RegistryMatchesTables ==
  /\ \A ch \in Chans : (ch \in Registered) <=> (\E r \in Rows : ch \in has[r])
  /\ \A ch \in Chans : (ch \in Registered) <=> (CurName[ch] \in Range(curs))
  /\ \A k \in ChanCols : (k \in colset) <=> (\E ch \in Registered : k \in AllColsOf(ch))
\* channel parameters are present exactly where the channel is - shared columns included
ChannelParamsExactlyWherePresent ==
  \A r \in Rows : \A ch \in Registered :
     (ch \in has[r]) <=> (\A k \in AllColsOf(ch) : k \in colset /\ col[k][r] # NaN)
NoOrphanValues ==
  \A k \in ChanCols : \A r \in Rows :
     (col[k][r] # NaN) => (\E ch \in has[r] : k \in AllColsOf(ch))
RefsExist ==
  /\ \A i \in DOMAIN recs : recs[i][1] \in Rows
  /\ \A k \in ExtKeys : \A i \in DOMAIN ext[k] : ext[k][i][1] \in Rows
  /\ \A i \in DOMAIN trains : \A G \in trains[i].groups : G # {} /\ G \subseteq Rows
RecordingsDuplicateFree == \A i, j \in DOMAIN recs : i # j => recs[i] # recs[j]
\* a trainable reaches all and only the rows of its groups (C10)
TrainablesTouchOnlyTheirRows ==
  \A k \in Keys : \A r \in Rows :
     (\A i \in DOMAIN trains : trains[i].key = k => r \notin UNION trains[i].groups) => Eff(k)[r] = col[k][r]
TrainablesReachTheirRows ==
  \A i \in {j \in DOMAIN trains : trains[j].key \in colset} : \A r \in UNION trains[i].groups :
     (\A j \in (i + 1)..Len(trains) : trains[j].key # trains[i].key \/ r \notin Written(trains[j]))
        => Eff(trains[i].key)[r] = trains[i].val
\* insert followed by delete_channel through the same view restores every table (C19: deletions undo insertions)
\* - stated as an action property over two consecutive steps in MC_Module (history variable `prev`).
=============================================================================

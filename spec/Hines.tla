------------------------------- MODULE Hines -------------------------------
(***************************************************************************)
(* The custom branched tridiagonal solver of solver_voltage.py as a state   *)
(* machine on the PADDED SLOT LAYOUT of JaxleySolveIndexer.                 *)
(*                                                                         *)
(* Layout (cell.py/network.py _init_morph_jaxley_spsolve): inside one cell  *)
(* every branch of a level is padded to that level's maximal compartment    *)
(* count; slots are numbered block after block.  A network concatenates the *)
(* cells' own paddings and processes equal levels of all cells together,    *)
(* which JaxleySolveIndexer only supports when all blocks of a level have   *)
(* the same size (otherwise it raises: "Refused").                          *)
(*                                                                         *)
(* One action per sub-step of _triang_branched / _backsub_branched:         *)
(*   Assemble; per level (deepest first) TriangLevel, ElimChildrenLower,    *)
(*   ElimParentsUpper; TriangRoot; BacksubRoot; per level (root first)      *)
(*   ElimParentsLower, ElimChildrenUpper, BacksubLevel; Done.               *)
(* The tridiagonal block operations are thomas_triang_upper /               *)
(* thomas_backsub_lower of tridiax as coded (rows normalised except the     *)
(* first row of the block); `stone` computes the same arrays in parallel.   *)
(***************************************************************************)
EXTENDS Cable

CONSTANT AS_CODED_LAST   \* TRUE: idx.last = end of the padded block (the F1 defect, kept as a
                         \* regression artefact); FALSE: the parent's real last compartment

(* ------------------------------ layout --------------------------------- *)
PadN(b)  == Max({ncomp[x] : x \in {y \in Branches : CellOf(y) = CellOf(b) /\ Level[y] = Level[b]}})
POffs[b \in 1..(NB + 1)] == IF b = 1 THEN 0 ELSE POffs[b - 1] + (IF b - 1 <= nb THEN PadN(b - 1) ELSE 0)
NSlots   == POffs[nb + 1]
Slots    == 1..NSlots
SFirst(b) == POffs[b] + 1
SEnd(b)   == POffs[b + 1]                                  \* end of the padded block
SLast(b)  == IF AS_CODED_LAST THEN SEnd(b) ELSE POffs[b] + ncomp[b]
SlotOfComp(c) == LET b == BranchOf[c] IN POffs[b] + (c - Offs[b])      \* idx.mask
RealSlots == {SlotOfComp(c) : c \in Comps}
CompOfSlot(s) == CHOOSE c \in Comps : SlotOfComp(c) = s
\* the indexer can only address levels whose blocks all have the same size
Accepts  == \A lv \in 0..MaxLevel : \A a, b \in AtLevel(lv) : PadN(a) = PadN(b)

(* ------------------------------ assembly -------------------------------- *)
RhsPA(v, inj, h) == [c \in Comps |-> Add(v[c], Mul(h, CT(inj, c)))]      \* voltages + dt*constant_terms
DiagC(h, c) ==
  Add(Add(Add(1, Mul(h, VT(c))), Mul(h, SumOver(Neigh(c), LAMBDA j : C2C(c, j)))),
      Add(IF IsParentEnd(c)  THEN Mul(h, BP2C(c)) ELSE 0,
          IF IsChildStart(c) THEN Mul(h, BP2C(c)) ELSE 0))
St0(h, rhs) ==
  [ d   |-> [s \in Slots |-> IF s \in RealSlots THEN DiagC(h, CompOfSlot(s)) ELSE 1],
    s   |-> [s \in Slots |-> IF s \in RealSlots THEN rhs[CompOfSlot(s)] ELSE 0],
    up  |-> [s \in Slots |-> IF s \in RealSlots
                THEN LET c == CompOfSlot(s) IN IF c < CLast(BranchOf[c]) THEN Neg(Mul(h, C2C(c, c + 1))) ELSE 0
                ELSE 0],
    lo  |-> [s \in Slots |-> IF s \in RealSlots
                THEN LET c == CompOfSlot(s) IN IF c > CFirst(BranchOf[c]) THEN Neg(Mul(h, C2C(c, c - 1))) ELSE 0
                ELSE 0],
    bpd |-> [p \in ParentBranches |-> Neg(SumOver(BpMembers(p), LAMBDA k : C2BP(k)))],
    bps |-> [p \in ParentBranches |-> 0],
    cc  |-> [b \in Branches |-> IF parents[b] # 0 THEN Neg(Mul(h, BP2C(CFirst(b)))) ELSE 0],
    wc  |-> [b \in Branches |-> IF parents[b] # 0 THEN C2BP(CFirst(b)) ELSE 0],
    cp  |-> [b \in Branches |-> IF b \in ParentBranches THEN Neg(Mul(h, BP2C(CLast(b)))) ELSE 0],
    wp  |-> [b \in Branches |-> IF b \in ParentBranches THEN C2BP(CLast(b)) ELSE 0],
    deg |-> FALSE ]           \* a pivot vanished modulo P: this (configuration, seed) decides nothing

SDiv(a, b) == IF b = 0 THEN 0 ELSE Div(a, b)

(* --------- thomas_triang_upper on one block lo..hi (as coded) ----------- *)
RECURSIVE TriRows(_, _, _)
TriRows(st, i, lo) ==        \* rows i = hi-1 .. lo+1 : normalised
  IF i <= lo THEN st
  ELSE LET den == Sub(st.d[i], Mul(st.up[i], st.lo[i + 1]))
       IN TriRows([st EXCEPT !.lo[i] = SDiv(st.lo[i], den),
                             !.s[i]  = SDiv(Sub(st.s[i], Mul(st.up[i], st.s[i + 1])), den),
                             !.d[i]  = 1, !.up[i] = 0,
                             !.deg   = st.deg \/ den = 0], i - 1, lo)
TriangBlock(st, lo, hi) ==
  IF hi <= lo THEN st
  ELSE LET st1 == [st EXCEPT !.lo[hi] = SDiv(st.lo[hi], st.d[hi]), !.s[hi] = SDiv(st.s[hi], st.d[hi]),
                             !.d[hi] = 1, !.deg = st.deg \/ st.d[hi] = 0]
           st2 == TriRows(st1, hi - 1, lo)
       IN [st2 EXCEPT !.d[lo] = Sub(st2.d[lo], Mul(st2.up[lo], st2.lo[lo + 1])),
                      !.s[lo] = Sub(st2.s[lo], Mul(st2.up[lo], st2.s[lo + 1])),
                      !.up[lo] = 0]
\* the per-branch operations of one sub-step touch disjoint rows (or add into a sum): order is irrelevant
OverSet(t0, S, Op(_, _)) == FoldSet(LAMBDA b, acc : Op(acc, b), t0, S)
TriangBranches(st, B) == OverSet(st, B, LAMBDA t, b : TriangBlock(t, SFirst(b), SEnd(b)))

(* ----------- thomas_backsub_lower on one block lo..hi (as coded) -------- *)
RECURSIVE BackRows(_, _, _)
BackRows(st, i, hi) == IF i > hi THEN st
                       ELSE BackRows([st EXCEPT !.s[i] = Sub(st.s[i], Mul(st.lo[i], st.s[i - 1]))], i + 1, hi)
BackBlock(st, lo, hi) ==
  LET st1 == [st EXCEPT !.s[lo] = SDiv(st.s[lo], st.d[lo]), !.deg = st.deg \/ st.d[lo] = 0]
      st2 == BackRows(st1, lo + 1, hi)
  IN [st2 EXCEPT !.d = [k \in Slots |-> IF k \in lo..hi THEN 1 ELSE st2.d[k]],
                 !.lo = [k \in Slots |-> IF k \in (lo + 1)..hi THEN 0 ELSE st2.lo[k]]]
BackBranches(st, B) == OverSet(st, B, LAMBDA t, b : BackBlock(t, SFirst(b), SEnd(b)))

(* ------------------------- branch-point eliminations -------------------- *)
ParAtLevel(lv) == {b \in ParentBranches : Level[b] = lv}
\* _eliminate_children_lower: children at level lv push their first row into the branch point
ElimChildLower(st, b) ==
  LET p == parents[b]  piv == st.d[SFirst(b)]  f == Neg(SDiv(st.wc[b], piv))
  IN [st EXCEPT !.bpd[p] = Add(st.bpd[p], Mul(f, st.cc[b])),
                !.bps[p] = Add(st.bps[p], Mul(f, st.s[SFirst(b)])),
                !.wc[b] = 0, !.deg = st.deg \/ piv = 0]
\* _eliminate_parents_upper: the branch point is substituted into the parent's last row
ElimParentUpper(st, b) ==
  LET f == SDiv(st.cp[b], st.bpd[b])  k == SLast(b)
  IN [st EXCEPT !.d[k] = Add(st.d[k], Neg(Mul(f, st.wp[b]))),
                !.s[k] = Add(st.s[k], Neg(Mul(f, st.bps[b]))),
                !.cp[b] = 0, !.deg = st.deg \/ st.bpd[b] = 0]
\* _eliminate_parents_lower (backsubstitution)
ElimParentLower(st, b) ==
  LET k == SLast(b)
  IN [st EXCEPT !.bps[b] = Add(st.bps[b], Neg(SDiv(Mul(st.s[k], st.wp[b]), st.d[k]))),
                !.wp[b] = 0, !.deg = st.deg \/ st.d[k] = 0]
\* _eliminate_children_upper (backsubstitution)
ElimChildUpper(st, b) ==
  LET p == parents[b]  k == SFirst(b)
  IN [st EXCEPT !.s[k] = Add(st.s[k], Neg(SDiv(Mul(st.bps[p], st.cc[b]), st.bpd[p]))),
                !.cc[b] = 0, !.deg = st.deg \/ st.bpd[p] = 0]

StepTriangLevel(st, lv)  == TriangBranches(st, AtLevel(lv))
StepElimChildLower(st, lv) == OverSet(st, AtLevel(lv), ElimChildLower)
StepElimParentUpper(st, lv) == OverSet(st, ParAtLevel(lv - 1), ElimParentUpper)
StepElimParentLower(st, lv) == OverSet(st, ParAtLevel(lv - 1), ElimParentLower)
StepElimChildUpper(st, lv) == OverSet(st, AtLevel(lv), ElimChildUpper)
StepBacksubLevel(st, lv) == BackBranches(st, AtLevel(lv))

(* -------------------- the whole solve as one operator ------------------- *)
RECURSIVE TriAll(_, _)
TriAll(st, lv) == IF lv = 0 THEN StepTriangLevel(st, 0)
                  ELSE TriAll(StepElimParentUpper(StepElimChildLower(StepTriangLevel(st, lv), lv), lv), lv - 1)
RECURSIVE BackAll(_, _)
BackAll(st, lv) == IF lv > MaxLevel THEN st
                   ELSE BackAll(StepBacksubLevel(StepElimChildUpper(StepElimParentLower(st, lv), lv), lv), lv + 1)
SolveSt(h, rhs) == BackAll(StepBacksubLevel(TriAll(St0(h, rhs), MaxLevel), 0), 1)
Extract(st) == [c \in Comps |-> st.s[SlotOfComp(c)]]                 \* solves[idx.mask(internal_node_inds)]
Solve(h, rhs) == Extract(SolveSt(h, rhs))

(* ------------------------------ the machine ----------------------------- *)
VARIABLES pc, lvl, st
hvars == <<parents, ncomp, blab, pc, lvl, st>>

Assemble ==
  /\ pc = "Config"
  /\ IF Accepts THEN /\ st' = St0(dt, RhsPA(V0, Inj0, dt))
                     /\ lvl' = MaxLevel
                     /\ pc' = IF MaxLevel = 0 THEN "TriangRoot" ELSE "TriangLevel"
                ELSE pc' = "Refused" /\ UNCHANGED <<st, lvl>>
  /\ UNCHANGED <<parents, ncomp, blab>>
TriangLevel ==
  /\ pc = "TriangLevel" /\ st' = StepTriangLevel(st, lvl) /\ pc' = "ElimChildrenLower"
  /\ UNCHANGED <<parents, ncomp, blab, lvl>>
ElimChildrenLower ==
  /\ pc = "ElimChildrenLower" /\ st' = StepElimChildLower(st, lvl) /\ pc' = "ElimParentsUpper"
  /\ UNCHANGED <<parents, ncomp, blab, lvl>>
ElimParentsUpper ==
  /\ pc = "ElimParentsUpper" /\ st' = StepElimParentUpper(st, lvl) /\ lvl' = lvl - 1
  /\ pc' = IF lvl = 1 THEN "TriangRoot" ELSE "TriangLevel"
  /\ UNCHANGED <<parents, ncomp, blab>>
TriangRoot ==
  /\ pc = "TriangRoot" /\ st' = StepTriangLevel(st, 0) /\ pc' = "BacksubRoot"
  /\ UNCHANGED <<parents, ncomp, blab, lvl>>
BacksubRoot ==
  /\ pc = "BacksubRoot" /\ st' = StepBacksubLevel(st, 0) /\ lvl' = 1
  /\ pc' = IF MaxLevel = 0 THEN "Done" ELSE "ElimParentsLower"
  /\ UNCHANGED <<parents, ncomp, blab>>
ElimParentsLower ==
  /\ pc = "ElimParentsLower" /\ st' = StepElimParentLower(st, lvl) /\ pc' = "ElimChildrenUpper"
  /\ UNCHANGED <<parents, ncomp, blab, lvl>>
ElimChildrenUpper ==
  /\ pc = "ElimChildrenUpper" /\ st' = StepElimChildUpper(st, lvl) /\ pc' = "BacksubLevel"
  /\ UNCHANGED <<parents, ncomp, blab, lvl>>
BacksubLevel ==
  /\ pc = "BacksubLevel" /\ st' = StepBacksubLevel(st, lvl) /\ lvl' = lvl + 1
  /\ pc' = IF lvl = MaxLevel THEN "Done" ELSE "ElimParentsLower"
  /\ UNCHANGED <<parents, ncomp, blab>>
HinesNext == Assemble \/ TriangLevel \/ ElimChildrenLower \/ ElimParentsUpper \/ TriangRoot \/ BacksubRoot
             \/ ElimParentsLower \/ ElimChildrenUpper \/ BacksubLevel

Solution == Extract(st)

(* ------------------------------ properties ------------------------------ *)
\* denominators of the parameter-level formulas must not vanish modulo P either
ParamsOK ==
  /\ \A c \in Comps : \A j \in Neigh(c) :
        /\ Add(Rh(c), Rh(j)) # 0
        /\ Add(Mul(Mul(ra(c), Sq(r(j))), l(c)), Mul(Mul(ra(j), Sq(r(c))), l(j))) # 0
  /\ \A p \in ParentBranches : SumOver(BpMembers(p), LAMBDA k : Gbp(k)) # 0
NonDegenerate(t) == ParamsOK /\ ~t.deg

\* C01: the vector produced at Done satisfies every row of the backward-Euler cable system
HinesSolvesCable ==
  (pc = "Done" /\ NonDegenerate(st)) => \A c \in Comps : BwdResidual(Solution, V0, Inj0, dt, c) = 0
\* the solve leaves an identity system behind (all coupling terms consumed exactly once)
HinesConsumesAllCouplings ==
  pc = "Done" => /\ \A b \in Branches : st.cc[b] = 0 /\ st.wc[b] = 0 /\ st.cp[b] = 0 /\ st.wp[b] = 0
                 /\ \A k \in Slots : st.d[k] = 1 /\ st.up[k] = 0
\* C01: Crank-Nicolson as coded (2 * implicit half step - v) satisfies the Crank-Nicolson system
CNAsCoded == LET hs == SolveSt(Mul(dt, Half), RhsPA(V0, Inj0, Mul(dt, Half)))
             IN [x |-> [c \in Comps |-> Sub(Mul(2, Extract(hs)[c]), V0[c])], ok |-> NonDegenerate(hs)]
CrankNicolsonIsTrapezoidal ==
  pc = "Done" => LET cn == CNAsCoded IN cn.ok => \A c \in Comps : CNResidual(cn.x, V0, Inj0, dt, c) = 0
=============================================================================

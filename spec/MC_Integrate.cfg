SPECIFICATION Spec
CONSTANTS
  MaxIn = 4
  MaxEntry = 3
  MaxNest = 2
  AS_CODED_RET = FALSE
INVARIANT LayoutOrderIsIdentity
INVARIANT ReturnedStateIsLastReturned
INVARIANT Composition
INVARIANT SampleKActsInStepK
INVARIANT ClampHolds
INVARIANT DataStimulusLandsOnItsCompartment
INVARIANT ColumnKIsAfterKSteps
CHECK_DEADLOCK FALSE

---------------------------- MODULE MC_Integrate ----------------------------
EXTENDS Integrate
\* the harness reads every reachable state (configuration + expected observation) from the dump
=============================================================================

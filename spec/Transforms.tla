----------------------------- MODULE Transforms -----------------------------
(***************************************************************************)
(* The structure of parameter transforms (optimize/transforms.py): declared *)
(* ranges, composition (ChainTransform applies its members in order and     *)
(* inverts them in REVERSE order), masking (MaskedTransform transforms the  *)
(* masked entries and passes the others through) and ParamTransform (each   *)
(* entry of the parameter pytree goes through exactly its own transform).   *)
(* Transforms are abstracted to bijections of a small finite set, so TLC    *)
(* can enumerate every chain / mask / pytree and state the expected values; *)
(* the harness builds the same objects from CustomTransform lookup tables   *)
(* and compares integers.  The numerical side (bounds, monotonicity,        *)
(* saturation, round trips) is decided by ExprAbs.tla on the traced         *)
(* programs of forward / inverse.                                           *)
(***************************************************************************)
EXTENDS Naturals, Sequences, FiniteSets, TLC, Json

D == 0..3                                   \* the finite carrier
Perms == << <<1, 2, 3, 0>>, <<0, 2, 1, 3>>, <<3, 0, 2, 1>> >>      \* Perms[t][x + 1] = t(x), three bijections
Fwd(t, x) == Perms[t][x + 1]
Inv(t, y) == CHOOSE x \in D : Fwd(t, x) = y
RECURSIVE ChainFwd(_, _)
ChainFwd(ts, x) == IF ts = <<>> THEN x ELSE ChainFwd(Tail(ts), Fwd(Head(ts), x))
RECURSIVE ChainInv(_, _)
ChainInv(ts, y) == IF ts = <<>> THEN y ELSE Inv(Head(ts), ChainInv(Tail(ts), y))       \* last member inverted first
MaskFwd(m, t, xs) == [i \in DOMAIN xs |-> IF m[i] THEN Fwd(t, xs[i]) ELSE xs[i]]
MaskInv(m, t, ys) == [i \in DOMAIN ys |-> IF m[i] THEN Inv(t, ys[i]) ELSE ys[i]]
\* pytree [{a: x1}, {b: x2, c: x3}] with transforms [{a: t1}, {b: t2, c: t3}]
TreeFwd(ts, xs) == [i \in DOMAIN xs |-> Fwd(ts[i], xs[i])]
TreeInv(ts, ys) == [i \in DOMAIN ys |-> Inv(ts[i], ys[i])]

\* a PARTIAL transform (like softplus, whose inverse exists only on its range): D -> 2..5; outside, the result is undefined
Undef == 99
E == 0..5
PF == <<2, 4, 5, 3>>
PFwd(x) == IF x \in D THEN PF[x + 1] ELSE Undef
PInv(y) == IF \E x \in D : PF[x + 1] = y THEN CHOOSE x \in D : PF[x + 1] = y ELSE Undef
\* an excluded entry passes through whatever the inner transform would have made of it - also where that is undefined
PMaskFwd(m, xs) == [i \in DOMAIN xs |-> IF m[i] THEN PFwd(xs[i]) ELSE xs[i]]
PMaskInv(m, ys) == [i \in DOMAIN ys |-> IF m[i] THEN PInv(ys[i]) ELSE ys[i]]
PVecs == {<<0, 1, 5>>, <<4, 0, 2>>, <<1, 3, 0>>, <<5, 5, 1>>}

Chains == UNION {[1..n -> 1..3] : n \in 1..3}
Masks == [1..3 -> BOOLEAN]
Trees == [1..3 -> 1..3]
Vecs == {<<0, 1, 2>>, <<3, 3, 1>>, <<2, 0, 3>>}

VARIABLES kind, obj, val
Init == kind = "none" /\ obj = <<>> /\ val = <<>>
Pick ==
  \/ \E c \in Chains : kind' = "chain" /\ obj' = c /\ val' = [x \in D |-> <<ChainFwd(c, x), ChainInv(c, x)>>]
  \/ \E m \in Masks, t \in 1..3, v \in Vecs : kind' = "mask" /\ obj' = <<m, t, v>> /\ val' = <<MaskFwd(m, t, v), MaskInv(m, t, v)>>
  \/ \E m \in Masks, v \in PVecs : kind' = "pmask" /\ obj' = <<m, v>> /\ val' = <<PMaskFwd(m, v), PMaskInv(m, v)>>
  \/ \E ts \in Trees, v \in Vecs : kind' = "tree" /\ obj' = <<ts, v>> /\ val' = <<TreeFwd(ts, v), TreeInv(ts, v)>>
Next == kind = "none" /\ Pick
Spec == Init /\ [][Next]_<<kind, obj, val>>

\* properties of the structure itself
ChainIsBijection == kind = "chain" => \A x \in D : ChainInv(obj, ChainFwd(obj, x)) = x /\ ChainFwd(obj, ChainInv(obj, x)) = x
MaskRoundTrip == kind = "mask" => MaskInv(obj[1], obj[2], MaskFwd(obj[1], obj[2], obj[3])) = obj[3]
ExcludedEntriesPassThrough == kind = "pmask" => \A i \in 1..3 : ~obj[1][i] => (val[1][i] = obj[2][i] /\ val[2][i] = obj[2][i])
\* an included entry round-trips wherever the inner inverse is defined
PartialRoundTrip == kind = "pmask" => \A i \in 1..3 : (obj[1][i] /\ val[2][i] # Undef) => PFwd(val[2][i]) = obj[2][i]
EachEntryItsOwnTransform == kind = "tree" => \A i \in 1..3 : val[1][i] = Fwd(obj[1][i], obj[2][i])
Emit == kind # "none" => PrintT(<<"TF", ToJson([kind |-> kind, obj |-> obj, val |-> val])>>)
ASSUME PrintT(<<"PERMS", ToJson(Perms)>>)
ASSUME PrintT(<<"PARTIAL", ToJson(PF)>>)
=============================================================================

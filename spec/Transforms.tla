----------------------------- MODULE Transforms -----------------------------
(***************************************************************************)
(* The structure of parameter transforms (optimize/transforms.py): declared *)
(* ranges, composition (ChainTransform applies its members in order and     *)
(* inverts them in REVERSE order), masking (MaskedTransform transforms the  *)
(* masked entries and passes the others through) and ParamTransform (each   *)
(* entry of the parameter pytree goes through exactly its own transform).   *)
(* Transforms are abstracted to bijections of a small finite set, so TLC    *)
(* can enumerate every chain / mask / pytree and state the expected values; *)
(* the harness builds the same objects from CustomTransform lookup tables   *)
(* and compares integers.  The numerical side (bounds, monotonicity,        *)
(* saturation, round trips) is decided by ExprAbs.tla on the traced         *)
(* programs of forward / inverse.                                           *)
(***************************************************************************)
EXTENDS Naturals, Sequences, FiniteSets, TLC, Json

D == 0..3                                   \* the finite carrier
Perms == << <<1, 2, 3, 0>>, <<0, 2, 1, 3>>, <<3, 0, 2, 1>> >>      \* Perms[t][x + 1] = t(x), three bijections
Fwd(t, x) == Perms[t][x + 1]
Inv(t, y) == CHOOSE x \in D : Fwd(t, x) = y
RECURSIVE ChainFwd(_, _)
ChainFwd(ts, x) == IF ts = <<>> THEN x ELSE ChainFwd(Tail(ts), Fwd(Head(ts), x))
RECURSIVE ChainInv(_, _)
ChainInv(ts, y) == IF ts = <<>> THEN y ELSE Inv(Head(ts), ChainInv(Tail(ts), y))       \* last member inverted first
MaskFwd(m, t, xs) == [i \in DOMAIN xs |-> IF m[i] THEN Fwd(t, xs[i]) ELSE xs[i]]
MaskInv(m, t, ys) == [i \in DOMAIN ys |-> IF m[i] THEN Inv(t, ys[i]) ELSE ys[i]]
\* pytree [{a: x1}, {b: x2, c: x3}] with transforms [{a: t1}, {b: t2, c: t3}]
TreeFwd(ts, xs) == [i \in DOMAIN xs |-> Fwd(ts[i], xs[i])]
TreeInv(ts, ys) == [i \in DOMAIN ys |-> Inv(ts[i], ys[i])]

Chains == UNION {[1..n -> 1..3] : n \in 1..3}
Masks == [1..3 -> BOOLEAN]
Trees == [1..3 -> 1..3]
Vecs == {<<0, 1, 2>>, <<3, 3, 1>>, <<2, 0, 3>>}

VARIABLES kind, obj, val
Init == kind = "none" /\ obj = <<>> /\ val = <<>>
Pick ==
  \/ \E c \in Chains : kind' = "chain" /\ obj' = c /\ val' = [x \in D |-> <<ChainFwd(c, x), ChainInv(c, x)>>]
  \/ \E m \in Masks, t \in 1..3, v \in Vecs : kind' = "mask" /\ obj' = <<m, t, v>> /\ val' = <<MaskFwd(m, t, v), MaskInv(m, t, v)>>
  \/ \E ts \in Trees, v \in Vecs : kind' = "tree" /\ obj' = <<ts, v>> /\ val' = <<TreeFwd(ts, v), TreeInv(ts, v)>>
Next == kind = "none" /\ Pick
Spec == Init /\ [][Next]_<<kind, obj, val>>

\* properties of the structure itself
ChainIsBijection == kind = "chain" => \A x \in D : ChainInv(obj, ChainFwd(obj, x)) = x /\ ChainFwd(obj, ChainInv(obj, x)) = x
MaskRoundTrip == kind = "mask" => MaskInv(obj[1], obj[2], MaskFwd(obj[1], obj[2], obj[3])) = obj[3]
EachEntryItsOwnTransform == kind = "tree" => \A i \in 1..3 : val[1][i] = Fwd(obj[1][i], obj[2][i])
Emit == kind # "none" => PrintT(<<"TF", ToJson([kind |-> kind, obj |-> obj, val |-> val])>>)
ASSUME PrintT(<<"PERMS", ToJson(Perms)>>)
=============================================================================

INIT Init
NEXT Next
INVARIANT WellFormed
CHECK_DEADLOCK FALSE

SPECIFICATION Spec
CONSTANTS
  NCompOfCell <- NCompMC
  Pops <- PopsMC
  MaxDraws = 2
INVARIANT ExactlyOnePerPair
INVARIANT OnePerTrueEntry
INVARIANT WithinPopulations
INVARIANT NoExtraEdges
CONSTRAINT Emit
CHECK_DEADLOCK FALSE

------------------------------ MODULE Trace_Net ------------------------------
(***************************************************************************)
(* Code -> specification for networks: validates histories RECORDED from    *)
(* the real jaxley (long random sequences of connect / set / record /       *)
(* delete_recordings / clamp / stimulate / make_trainable /                 *)
(* delete_trainables calls on the probe network, wiring and editing         *)
(* interleaved) against the actions of NetSim.tla.  Every call is logged at *)
(* its return with its arguments, whether it raised, and the projection of  *)
(* the public tables (.edges, .recordings, .externals, trainables).  An     *)
(* accepted call must be an enabled action whose successor equals the       *)
(* logged state; a call that raised must be a disabled action and must have *)
(* changed nothing.  Many traces per TLC run (one initial state each).      *)
(***************************************************************************)
EXTENDS NetSim, Json, IOUtils

Tr == JsonDeserialize(IOEnv.TRACE_FILE)
VARIABLES tid, l
tvars == <<nvars, tid, l>>

SeqToSet(q) == {q[i] : i \in DOMAIN q}
Pairs(q) == [i \in DOMAIN q |-> <<q[i][1], q[i][2]>>]
LEdges(p) == [i \in DOMAIN p.edges |-> [pre |-> p.edges[i].pre, post |-> p.edges[i].post, ty |-> p.edges[i].ty]]
LTr(p) == [i \in DOMAIN p.tr |-> [groups |-> {SeqToSet(p.tr[i].groups[g]) : g \in DOMAIN p.tr[i].groups}, val |-> p.tr[i].val]]
PostMatches(p) ==
  /\ edges' = LEdges(p) /\ w' = p.w /\ s0' = p.s0
  /\ recs' = Pairs(p.recs) /\ stim' = Pairs(p.stim) /\ ecl' = Pairs(p.ecl)
  /\ tr' = LTr(p) /\ nin' = p.nin
Same(p) == edges = LEdges(p) /\ w = p.w /\ s0 = p.s0 /\ recs = Pairs(p.recs) /\ stim = Pairs(p.stim) /\ ecl = Pairs(p.ecl) /\ tr = LTr(p)

KMC == <<2, 4, 6, 8, 10, 12>>
\* the view exists in the code (a type / k-th-edge view needs a synapse it can denote; a node selection always exists)
Exists(ev) == ev.kind = "rows" \/ ViewEdges(ev) # {}
\* NetSim.tla leaves out calls that change nothing (they only multiply states): deleting where nothing is recorded / trainable.
\* In a recorded history they occur; they are accepted as calls without effect.
Act(e) == CASE e.op = "connect"  -> ConnectOp(e.pre, e.post, e.ty)
            [] e.op = "setw"     -> SetW(e.x, e.ev)
            [] e.op = "sets"     -> SetS(e.x, e.ev)
            [] e.op = "record"   -> RecordE(e.what, e.ev)
            [] e.op = "delrec"   -> IF recs = <<>> /\ Exists(e.ev) THEN UNCHANGED nvars ELSE DelRecE(e.ev)
            [] e.op = "clamp"    -> ClampE(e.ev)
            [] e.op = "stim"     -> Stim(e.row)
            [] e.op = "trainw"   -> TrainW(e.x, e.ev, e.each)
            [] e.op = "deltrain" -> IF tr = <<>> /\ Exists(e.ev) THEN UNCHANGED nvars ELSE DelTrainE(e.ev)
            \* copy_node_property_to_edges("v"): every synapse gets the value of its pre and of its post compartment (v = row + 1)
            [] e.op = "copyprop" -> /\ UNCHANGED nvars
                                    /\ e.prev = [i \in DOMAIN edges |-> edges[i].pre + 1]
                                    /\ e.postv = [i \in DOMAIN edges |-> edges[i].post + 1]
\* a key set through a node selection that holds no synapse of that type: the code either refuses (no such column in the view)
\* or accepts without effect (the column exists for other synapses of the view); both are admissible, nothing may change
NoTarget(e) == e.op \in {"setw", "sets"} /\ e.ev.kind = "rows" /\ ViewEdges(e.ev) = {}

Step == /\ l <= Len(Tr[tid])
        /\ LET e == Tr[tid][l] IN
             IF NoTarget(e) THEN UNCHANGED nvars /\ Same(e.after)
             ELSE IF e.ok = 1
             THEN Act(e) /\ PostMatches(e.after)
             ELSE (~ ENABLED Act(e)) /\ UNCHANGED nvars /\ Same(e.after)
        /\ l' = l + 1 /\ UNCHANGED tid
TraceInit == Init /\ tid \in 1..Len(Tr) /\ l = 1
TraceSpec == TraceInit /\ [][Step]_tvars
Progress == PrintT(<<"AT", tid, l>>)
=============================================================================

SPECIFICATION Spec
CONSTANTS
  MaxA = 6
  MaxB = 5
  MaxM = 5
INVARIANT AmplitudeSamples
INVARIANT LengthIsTmaxPlusTwo
INVARIANT FitsIntegrate
INVARIANT DeliveredCharge
INVARIANT RowsAreSingles
CONSTRAINT Emit
CHECK_DEADLOCK FALSE

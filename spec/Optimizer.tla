------------------------------ MODULE Optimizer ------------------------------
(* jaxley/optimize/optimizer.py (TypeOptimizer) as a state machine: one optimiser PER ENTRY of the list-of-single-key-dicts
   pytree that make_trainable / get_parameters produce, each built from the argument registered for the entry's NAME.
   The base optimiser of the model is optax.sgd(lr, momentum = mu) (trace' = g + mu trace, update = -lr trace'), with
   whole-number lr / mu / gradients so that the real float64 arithmetic is exact and can be compared with ==.

   State: the layout (names, in order; a name may repeat: two make_trainable calls on the same parameter through
   different views), one momentum trace per ENTRY (not per name), the gradient history per entry, the last updates.
   Not one of the listed properties: it extends the specification to the optimisation front end (C17 covers the
   transforms, C05 the gradients that are fed in here). *)
EXTENDS Integers, Sequences, FiniteSets, TLC, Json

CONSTANTS Layouts,      \* set of sequences of names
          MaxSteps,
          Grads         \* set of whole-number gradients

MCLayouts == {<<"g">>, <<"g", "r">>, <<"r", "g", "r">>, <<"g", "g", "r">>, <<"c", "r", "c">>}
MCGrads == {-1, 0, 2}

Lr(name) == CASE name = "g" -> 1 [] name = "r" -> 4 [] OTHER -> 2
Mu(name) == CASE name = "g" -> 2 [] name = "r" -> 1 [] OTHER -> 3

VARIABLES layout, trace, hist, upd, step, glog
ovars == <<layout, trace, hist, upd, step, glog>>

Init == layout = <<>> /\ trace = <<>> /\ hist = <<>> /\ upd = <<>> /\ step = -1 /\ glog = <<>>

\* TypeOptimizer(...) followed by .init(opt_params): one optimiser and one zero trace per entry
Setup(l) == /\ step = -1
            /\ layout' = l
            /\ trace' = [i \in 1..Len(l) |-> 0]
            /\ hist' = [i \in 1..Len(l) |-> <<>>]
            /\ upd' = [i \in 1..Len(l) |-> 0]
            /\ step' = 0
            /\ glog' = <<>>

\* .update(gradient, opt_state): entry i is advanced by ITS optimiser with ITS gradient and ITS state
Update(g) == /\ step >= 0 /\ step < MaxSteps
             /\ trace' = [i \in 1..Len(layout) |-> g[i] + Mu(layout[i]) * trace[i]]
             /\ upd' = [i \in 1..Len(layout) |-> -Lr(layout[i]) * trace'[i]]
             /\ hist' = [i \in 1..Len(layout) |-> Append(hist[i], g[i])]
             /\ step' = step + 1
             /\ glog' = Append(glog, [grads |-> g, updates |-> upd'])
             /\ UNCHANGED layout

Next == (\E l \in Layouts : Setup(l)) \/ (\E g \in [1..Len(layout) -> Grads] : Update(g))
Spec == Init /\ [][Next]_ovars

-----------------------------------------------------------------------------
\* what a LONE optimiser for the entry's name makes of the entry's own gradient history (closed form of the recursion)
RECURSIVE Pow(_, _)
Pow(b, e) == IF e = 0 THEN 1 ELSE b * Pow(b, e - 1)
RECURSIVE Lone(_, _, _)
Lone(mu, h, k) == IF k = 0 THEN 0 ELSE h[k] * Pow(mu, Len(h) - k) + Lone(mu, h, k - 1)

StructurePreserved == step >= 0 => (Len(upd) = Len(layout) /\ Len(trace) = Len(layout) /\ Len(hist) = Len(layout))
\* no cross-talk: every entry's state is a function of its own name and its own gradients only
EntriesIndependent == step >= 0 => \A i \in 1..Len(layout) :
                          /\ trace[i] = Lone(Mu(layout[i]), hist[i], Len(hist[i]))
                          /\ (step > 0 => upd[i] = -Lr(layout[i]) * trace[i])
\* two entries with the same name and the same gradients move together; with different names (and a non-zero
\* trace) they do not share a step size
SameNameSameStep == step > 0 => \A i, j \in 1..Len(layout) :
                          (layout[i] = layout[j] /\ hist[i] = hist[j]) => upd[i] = upd[j]
DifferentNameDifferentStep == step > 0 => \A i, j \in 1..Len(layout) :
                          (layout[i] # layout[j] /\ hist[i] = hist[j] /\ Len(hist[i]) = 1 /\ hist[i][1] # 0) => upd[i] # upd[j]
\* an Update never changes the layout, a zero gradient history leaves an entry where it is
LayoutFixed == [][step >= 0 => layout' = layout]_ovars
ZeroStays == step >= 0 => \A i \in 1..Len(layout) : (\A k \in 1..Len(hist[i]) : hist[i][k] = 0) => upd[i] = 0

Emit == (step = MaxSteps) => PrintT(<<"OPT", ToJson([layout |-> layout, log |-> glog])>>)
=============================================================================

----------------------------- MODULE ViewWrites -----------------------------
(* C11, second sentence: "Mutating calls made through a view change those rows of the module and no others."
   Views.tla says which rows a selector chain denotes; this module says what the module looks like after
   mutating calls are made through views that the user HOLDS, i.e. that were created before the calls
   (parts = [cell.branch(1), cell.branch(3)]; for p in parts: p.add_to_group("dend")).  A view is a snapshot:
   it must decide about the module's CURRENT tables, not the ones it saw when it was created.

   Two held views with arbitrary non-empty row sets (chosen in Init), then any sequence of <= MaxCalls calls
   through either of them.  Only calls whose keys exist in every snapshot are used (radius, v, stimuli, groups):
   a held view rightly refuses keys that were inserted after it was created. *)
EXTENDS Naturals, Sequences, FiniteSets, TLC

CONSTANTS N, MaxCalls

Rows == 0..(N - 1)
VARIABLES held,     \* <<rows of view 1, rows of view 2>>
          grp,      \* rows of the group "g"
          val,      \* radius column
          recs,     \* recorded rows ("v"), in order
          stims,    \* <<row, input id>> in order
          hist
wvars == <<held, grp, val, recs, stims, hist>>

RECURSIVE Asc(_)
Asc(S) == IF S = {} THEN <<>> ELSE LET m == CHOOSE x \in S : \A y \in S : x <= y IN <<m>> \o Asc(S \ {m})
Range(s) == {s[i] : i \in DOMAIN s}

Init == /\ held \in {<<a, b>> : a \in (SUBSET Rows) \ {{}}, b \in (SUBSET Rows) \ {{}}}
        /\ grp = {} /\ val = [r \in Rows |-> 1] /\ recs = <<>> /\ stims = <<>> /\ hist = <<>>

Group(i) == /\ grp' = grp \cup held[i]
            /\ hist' = Append(hist, <<"group", i>>)
            /\ UNCHANGED <<held, val, recs, stims>>
Set(i) == /\ val' = [r \in Rows |-> IF r \in held[i] THEN 10 + Len(hist) ELSE val[r]]
          /\ hist' = Append(hist, <<"set", i>>)
          /\ UNCHANGED <<held, grp, recs, stims>>
Record(i) == /\ recs' = recs \o SelectSeq(Asc(held[i]), LAMBDA r : r \notin Range(recs))
             /\ hist' = Append(hist, <<"record", i>>)
             /\ UNCHANGED <<held, grp, val, stims>>
Stim(i) == /\ stims' = stims \o [k \in 1..Cardinality(held[i]) |-> <<Asc(held[i])[k], Len(hist) + 1>>]
           /\ hist' = Append(hist, <<"stim", i>>)
           /\ UNCHANGED <<held, grp, val, recs>>
Next == Len(hist) < MaxCalls /\ \E i \in 1..2 : Group(i) \/ Set(i) \/ Record(i) \/ Stim(i)
Spec == Init /\ [][Next]_wvars

Callers(op) == UNION {held[hist[k][2]] : k \in {j \in DOMAIN hist : hist[j][1] = op}}
\* exactly the rows of the calling views, whatever was held when
GroupIsTheUnionOfItsCallers == grp = Callers("group")
OnlyRowsOfTheCallersAreSet == \A r \in Rows : (val[r] # 1) <=> (r \in Callers("set"))
RecordedExactlyOnce == Range(recs) = Callers("record") /\ Len(recs) = Cardinality(Range(recs))
EveryStimulusOnItsRows == {p[1] : p \in Range(stims)} = Callers("stim")
=============================================================================

SPECIFICATION Spec
CONSTANTS
  MaxN = 6
  MaxSoma = 2
  NTypes = 2
  SEEDK = 0
  CHAIN_ONLY = FALSE
  FREE_SEG = FALSE
INVARIANT EveryPointInExactlyOneSectionBody
INVARIANT SectionsFormATree
INVARIANT TypesPartition
INVARIANT SplitRespectsTheBound
INVARIANT SplitKeepsTheTracedLength
CONSTRAINT Emit
CHECK_DEADLOCK FALSE

SPECIFICATION Spec
CONSTANTS
  MaxN = 6
  MaxSoma = 2
  NTypes = 2
  SEEDK = 0
INVARIANT EveryPointInExactlyOneSectionBody
INVARIANT SectionsFormATree
INVARIANT TypesPartition
CONSTRAINT Emit
CHECK_DEADLOCK FALSE

--------------------------- MODULE MC_ViewWrites ---------------------------
EXTENDS ViewWrites, Json
CONSTANTS SAMPLE, SEEDK
SetCode(S) == LET RECURSIVE F(_) F(T) == IF T = {} THEN 0 ELSE LET x == CHOOSE y \in T : TRUE IN (x + 1) * (x + 3) + F(T \ {x}) IN F(S)
OpC(h) == (CASE h[1] = "group" -> 1 [] h[1] = "set" -> 2 [] h[1] = "record" -> 3 [] h[1] = "stim" -> 4) * 3 + h[2]
RECURSIVE HashSeq(_, _)
HashSeq(q, acc) == IF q = <<>> THEN acc ELSE HashSeq(Tail(q), (acc * 211 + OpC(Head(q)) * 1009 + 7) % 1000003)
Hash == (HashSeq(hist, 17) + SetCode(held[1]) * 31 + SetCode(held[2]) * 57) % SAMPLE
Emit == (hist # <<>> /\ Hash = SEEDK % SAMPLE) =>
          PrintT(<<"VW", ToJson([held |-> <<Asc(held[1]), Asc(held[2])>>, hist |-> hist, grp |-> Asc(grp), val |-> [r \in 1..N |-> val[r - 1]],
                                 recs |-> recs, stims |-> stims])>>)
=============================================================================

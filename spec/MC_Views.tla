------------------------------ MODULE MC_Views ------------------------------
(***************************************************************************)
(* Model-checking harness for Views.tla: three irregular modules (chosen so *)
(* that local and global ranks, cells with different branch counts and      *)
(* branches with different compartment counts all differ), the full         *)
(* selector alphabet, depth-bounded.  The state graph is dumped and every   *)
(* transition is replayed on the real jaxley (harness/views_check.py).      *)
(***************************************************************************)
EXTENDS Views, Json

\* A: network, cell 0 = branches <<2,1,3>>, cell 1 = <<2>>; 4 synapses of two types incl. an autapse
ShapeA  == << <<2, 1, 3>>, <<2>> >>
EdgesA  == << [pre |-> 0, post |-> 6, ty |-> "Iono"], [pre |-> 7, post |-> 3, ty |-> "Test"],
              [pre |-> 1, post |-> 4, ty |-> "Iono"], [pre |-> 5, post |-> 5, ty |-> "Iono"] >>
GroupsA == [g1 |-> {3, 4, 5, 6}, g2 |-> {1, 7}]
ChansA  == [HH |-> {3, 4, 5}, Leak |-> {6, 7}]
\* B: one cell with branches <<1,2,2,1>>
ShapeB  == << <<1, 2, 2, 1>> >>
EdgesB  == << >>
GroupsB == [g1 |-> {1, 2, 5}, g2 |-> {0}]
ChansB  == [HH |-> {0, 1, 2}, Leak |-> {2, 3, 4, 5}]
\* C: network of three cells <<1>>, <<2,2>>, <<3>>
ShapeC  == << <<1>>, <<2, 2>>, <<3>> >>
EdgesC  == << [pre |-> 0, post |-> 1, ty |-> "Iono"], [pre |-> 0, post |-> 5, ty |-> "Iono"],
              [pre |-> 3, post |-> 7, ty |-> "Test"], [pre |-> 6, post |-> 0, ty |-> "Test"] >>
GroupsC == [g1 |-> {0, 5, 6, 7}, g2 |-> {2, 3}]
ChansC  == [HH |-> {1, 2}, Leak |-> {0, 7}]

LocNumsMC == {0, 1, 2, 3, 4, 5, 6}      \* over LocDen = 6: 0, 1/6, 1/3, 1/2, 2/3, 5/6, 1 (boundaries included)
NodeSetsMC == {{0, 3, N - 1}, {1, 2}, {N - 2}}
EdgeSetsMC == {{1, 3}, {0}} \cap SUBSET AllEdges
SynTypes == {"Iono", "Test"}

Next ==
  \/ \E lv \in {"cell", "branch", "comp"}, I \in IdxSets : Select(lv, I)
  \/ \E lv \in {"cell", "branch", "comp"} : SelectAll(lv)
  \/ \E s \in {"local", "global"} : SetScope(s)
  \/ \E S \in NodeSetsMC : SelectNodes(S)
  \/ \E T \in EdgeSetsMC : SelectEdges(T)
  \/ \E g \in DOMAIN GroupRows : Group(g)
  \/ \E c \in DOMAIN ChanRows : Chan(c)
  \/ \E t \in SynTypes : Syn(t)
  \/ \E I \in (SUBSET (0..3)) \ {{}} : EdgeG(I)
  \/ \E I \in (SUBSET (0..2)) \ {{}} : EdgeL(I)
  \/ \E num \in LocNumsMC : Loc(num)
\* the harness builds the real module from this line: the TLA+ text is the single source of truth
ASSUME PrintT(<<"MODEL", ToJson([shape |-> Shape, edges |-> EdgeList, groups |-> GroupRows, chans |-> ChanRows,
                                 kind |-> BaseKind, nodesets |-> NodeSetsMC, edgesets |-> EdgeSetsMC, locden |-> LocDen])>>)
Spec == VInit /\ [][Next]_vvars
ViewOf == <<rows, eds, scope, haslei, lei>>          \* the depth counter is hidden: equal views merge
=============================================================================

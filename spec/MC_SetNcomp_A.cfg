SPECIFICATION Spec
CONSTANTS
  Parents <- ParentsA
  Init0 <- InitA
  NMax = 3
  MaxCalls = 2
  GroupBranches <- GroupsMC
INVARIANT ContiguousRows
INVARIANT GroupsAreWholeBranches
PROPERTY OthersUntouched
CONSTRAINT Emit
CHECK_DEADLOCK FALSE

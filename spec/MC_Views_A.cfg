SPECIFICATION Spec
CONSTANTS
  Shape <- ShapeA
  EdgeList <- EdgesA
  GroupRows <- GroupsA
  ChanRows <- ChansA
  BaseKind = "network"
  MaxIdx = 2
  LocNum = 0
  LocDen = 6
  MaxDepth = 99
INVARIANT EdgesAmongRows
INVARIANT NonEmpty
INVARIANT DenseLocal
PROPERTY Narrowing
VIEW ViewOf
CHECK_DEADLOCK FALSE

------------------------------ MODULE Geometry ------------------------------
(* The spatial side of a module: every branch carries traced points (`xyzr`), the node table carries the
   compartment centres (`x`, `y`, `z`) as they were when somebody last asked for them.  The calls that edit
   this state are move / move_to / rotate / compute_compartment_centers on a view; `distance` observes it.
   Nothing here enters a simulation (the listed properties do not mention it): the module extends the
   specification's coverage of the public API and is bound to the code by replay (harness/geometry_check.py).

   Coordinates are integers: branches are axis-parallel with lengths divisible by 2 * ncomp, translations are
   integer vectors and rotations are quarter turns, so every point and every compartment centre of every
   reachable state is an integer triple (CentresIntegral checks the divisions below are exact).

   Modelled AS CODED (named, not idealised):
     - rotate turns about the ORIGIN of the coordinate system, clockwise, not about the cell's root;
     - move_to with scalars shifts the whole view by (target - root of the FIRST cell in view);
       with arrays the i-th cell in view gets its own shift;
     - update_nodes = FALSE leaves the node table stale; it is refreshed only for the nodes of the view
       that asks (CentresOf the current points);
     - a view that contains only some branches of a cell moves only those: the cell comes apart. *)
EXTENDS Integers, Sequences, FiniteSets, TLC

CONSTANTS MaxDepth

Branches == 1..4
Parent   == <<0, 1, 1, 0>>          \* 0 = root of its cell
CellOf   == <<1, 1, 1, 2>>
NComp    == <<2, 1, 2, 1>>
Cells    == {1, 2}
Comps    == {<<b, k>> : b \in Branches, k \in 1..2} \cap {c \in (Branches \X (1..2)) : c[2] <= NComp[c[1]]}

P0 == <<  <<<<0, 0, 0>>,  <<8, 0, 0>>>>,
          <<<<8, 0, 0>>,  <<8, 4, 0>>>>,
          <<<<8, 0, 0>>,  <<8, 0, -8>>>>,
          <<<<20, 4, 4>>, <<20, 12, 4>>>> >>

\* the views of the replayed module (whole branches): name |-> set of branches
ViewNames == {"net", "cell0", "cell1", "cell0.branch1", "cells.branch0"}
Br(v) == CASE v = "net" -> {1, 2, 3, 4}
           [] v = "cell0" -> {1, 2, 3}
           [] v = "cell1" -> {4}
           [] v = "cell0.branch1" -> {2}
           [] v = "cells.branch0" -> {1, 4}
CellsIn(v) == {CellOf[b] : b \in Br(v)}
Min(S) == CHOOSE x \in S : \A y \in S : x <= y
FirstBranch(v, c) == Min({b \in Br(v) : CellOf[b] = c})
\* the i-th cell of a view (1-based, ascending)
RECURSIVE Ranked(_)
Ranked(S) == IF S = {} THEN <<>> ELSE <<Min(S)>> \o Ranked(S \ {Min(S)})
SplitsACell(v) == \E c \in CellsIn(v) : \E b \in Branches : CellOf[b] = c /\ b \notin Br(v)

VARIABLES xyz,      \* branch -> <<start, end>>, integer triples (module.xyzr[b][:, :3])
          nodes,    \* compartment -> centre as stored in .nodes[x, y, z], or <<>>
          hist,     \* the calls so far
          obs,      \* result of the last distance() call
          split     \* a view that splits a cell was moved or rotated
gvars == <<xyz, nodes, hist, obs, split>>

Add(p, d) == <<p[1] + d[1], p[2] + d[2], p[3] + d[3]>>
Sub(p, q) == <<p[1] - q[1], p[2] - q[2], p[3] - q[3]>>
Dist2(p, q) == (p[1] - q[1]) * (p[1] - q[1]) + (p[2] - q[2]) * (p[2] - q[2]) + (p[3] - q[3]) * (p[3] - q[3])

\* centre of compartment k of branch b: start + (2k - 1)/(2n) (end - start)
CentreNum(x, c) == [i \in 1..3 |-> (2 * NComp[c[1]] - (2 * c[2] - 1)) * x[c[1]][1][i] + (2 * c[2] - 1) * x[c[1]][2][i]]
Centre(x, c) == [i \in 1..3 |-> CentreNum(x, c)[i] \div (2 * NComp[c[1]])]
Refresh(x, v, old) == [c \in Comps |-> IF c[1] \in Br(v) THEN Centre(x, c) ELSE old[c]]

Shift(x, S, d) == [b \in Branches |-> IF b \in S THEN <<Add(x[b][1], d), Add(x[b][2], d)>> ELSE x[b]]

\* quarter turns, clockwise as coded: (u, v) -> (u cos + v sin, -u sin + v cos), angle = q * 90 degrees
Cos(q) == CASE q = 1 -> 0 [] q = 2 -> -1 [] q = 3 -> 0
Sin(q) == CASE q = 1 -> 1 [] q = 2 -> 0 [] q = 3 -> -1
Dims(ax) == CASE ax = "xy" -> <<1, 2>> [] ax = "xz" -> <<1, 3>> [] ax = "yz" -> <<2, 3>>
RotP(p, q, ax) == LET i == Dims(ax)[1] j == Dims(ax)[2] IN
                  [p EXCEPT ![i] = p[i] * Cos(q) + p[j] * Sin(q), ![j] = (0 - p[i]) * Sin(q) + p[j] * Cos(q)]

Deltas  == {<<4, 0, 0>>, <<0, -8, 4>>}
Targets == {<<0, 0, 0>>, <<12, -4, 8>>}
TargetSeqs == {<<<<0, 0, 0>>, <<12, -4, 8>>>>, <<<<4, 4, 4>>, <<4, 4, 4>>>>}

Finish(x, v, upd, h) ==
  /\ xyz' = x
  /\ nodes' = IF upd THEN Refresh(x, v, nodes) ELSE nodes
  /\ hist' = Append(hist, h)
  /\ split' = (split \/ SplitsACell(v))
  /\ obs' = <<>>

Move(v, d, upd) ==
  Finish(Shift(xyz, Br(v), d), v, upd, [op |-> "move", view |-> v, d |-> d, upd |-> upd])

\* scalars: one shift for the whole view, taken from the first cell in view
MoveTo(v, t, upd) ==
  LET c1 == Min(CellsIn(v))
      off == Sub(t, xyz[FirstBranch(v, c1)][1]) IN
  Finish(Shift(xyz, Br(v), off), v, upd, [op |-> "move_to", view |-> v, t |-> t, upd |-> upd])

\* arrays: one target per cell in view
MoveToEach(v, ts, upd) ==
  LET cs == Ranked(CellsIn(v))
      offOf(b) == LET i == CHOOSE i \in 1..Len(cs) : cs[i] = CellOf[b] IN Sub(ts[i], xyz[FirstBranch(v, cs[i])][1]) IN
  Finish([b \in Branches |-> IF b \in Br(v) THEN <<Add(xyz[b][1], offOf(b)), Add(xyz[b][2], offOf(b))>> ELSE xyz[b]],
         v, upd, [op |-> "move_to_each", view |-> v, ts |-> SubSeq(ts, 1, Len(cs)), upd |-> upd])

Rotate(v, q, ax, upd) ==
  Finish([b \in Branches |-> IF b \in Br(v) THEN <<RotP(xyz[b][1], q, ax), RotP(xyz[b][2], q, ax)>> ELSE xyz[b]],
         v, upd, [op |-> "rotate", view |-> v, q |-> q, ax |-> ax, upd |-> upd])

Centres(v) ==
  /\ nodes' = Refresh(xyz, v, nodes)
  /\ hist' = Append(hist, [op |-> "centres", view |-> v])
  /\ obs' = <<>>
  /\ UNCHANGED <<xyz, split>>

\* observation: squared direct distance between two compartments (the code returns its square root)
Distance(c1, c2) ==
  /\ obs' = <<c1, c2, Dist2(Centre(xyz, c1), Centre(xyz, c2))>>
  /\ hist' = Append(hist, [op |-> "distance", a |-> c1, b |-> c2])
  /\ UNCHANGED <<xyz, nodes, split>>

Init == /\ xyz = P0
        /\ nodes = [c \in Comps |-> <<>>]
        /\ hist = <<>>
        /\ obs = <<>>
        /\ split = FALSE

Step == \/ \E v \in ViewNames, d \in Deltas, u \in BOOLEAN : Move(v, d, u)
        \/ \E v \in ViewNames, t \in Targets, u \in BOOLEAN : MoveTo(v, t, u)
        \/ \E v \in ViewNames, ts \in TargetSeqs, u \in BOOLEAN : MoveToEach(v, ts, u)
        \/ \E v \in ViewNames, q \in {1, 3}, ax \in {"xy", "xz", "yz"}, u \in BOOLEAN : Rotate(v, q, ax, u)
        \/ \E v \in ViewNames : Centres(v)
        \/ \E c1, c2 \in Comps : c1 # c2 /\ obs = <<>> /\ hist # <<>> /\ Distance(c1, c2)
\* histories are bounded by enabledness (not by a state constraint): no successor beyond the bound is generated
Next == Len(hist) < MaxDepth /\ Step

Spec == Init /\ [][Next]_gvars

(* ------------------------------- properties ------------------------------- *)
TypeOK == /\ xyz \in [Branches -> Seq(Seq(Int))]
          /\ \A c \in Comps : nodes[c] = <<>> \/ nodes[c] \in [1..3 -> Int]

\* the divisions in Centre are exact in every reachable state (soundness of the integer model)
CentresIntegral == \A c \in Comps : \A i \in 1..3 : CentreNum(xyz, c)[i] % (2 * NComp[c[1]]) = 0

\* no call changes the length of a branch
LengthsPreserved == \A b \in Branches : Dist2(xyz[b][1], xyz[b][2]) = Dist2(P0[b][1], P0[b][2])

\* as long as only views made of whole cells were moved or rotated, every branch starts where its parent ends
Attached == \A b \in Branches : Parent[b] # 0 => xyz[b][1] = xyz[Parent[b]][2]
WholeCellViewsKeepCellsTogether == ~split => Attached

\* every call acts as a rigid motion on the part of each cell that is in the view, and leaves the rest alone
LastView == IF hist = <<>> \/ ~("view" \in DOMAIN hist[Len(hist)]) THEN "none" ELSE hist[Len(hist)].view
RigidOnTheView ==
  [][\A b1, b2 \in Branches : \A i, j \in 1..2 :
       LET v == LastView' IN
       (v # "none" /\ CellOf[b1] = CellOf[b2] /\ ((b1 \in Br(v)) <=> (b2 \in Br(v))))
         => Dist2(xyz'[b1][i], xyz'[b2][j]) = Dist2(xyz[b1][i], xyz[b2][j])]_gvars
OutsideTheViewNothingMoves ==
  [][\A b \in Branches : (LastView' # "none" /\ b \notin Br(LastView')) => xyz'[b] = xyz[b]]_gvars

\* move_to puts the root of the first cell in view (scalars) / of every cell in view (arrays) on the target
MoveToReachesItsTarget ==
  hist # <<>> =>
    LET h == hist[Len(hist)] IN
      /\ h.op = "move_to" => xyz[FirstBranch(h.view, Min(CellsIn(h.view)))][1] = h.t
      /\ h.op = "move_to_each" => \A i \in 1..Len(h.ts) : xyz[FirstBranch(h.view, Ranked(CellsIn(h.view))[i])][1] = h.ts[i]

\* what the node table shows is either nothing, or the centre at SOME earlier moment: stored centres are always
\* centres of a configuration congruent to the branch (they lie at the right fraction of a segment of the right length)
StoredCentresAreSpacedLikeTheBranch ==
  \A b \in Branches : (NComp[b] = 2 /\ nodes[<<b, 1>>] # <<>> /\ nodes[<<b, 2>>] # <<>>)
      => 4 * Dist2(nodes[<<b, 1>>], nodes[<<b, 2>>]) = Dist2(P0[b][1], P0[b][2])
=============================================================================

SPECIFICATION Spec
CONSTANTS
  Shape <- ShapeB
  EdgeList <- EdgesB
  GroupRows <- GroupsB
  ChanRows <- ChansB
  BaseKind = "cell"
  MaxIdx = 2
  LocNum = 0
  LocDen = 6
  MaxDepth = 99
INVARIANT EdgesAmongRows
INVARIANT NonEmpty
INVARIANT DenseLocal
PROPERTY Narrowing
VIEW ViewOf
CHECK_DEADLOCK FALSE

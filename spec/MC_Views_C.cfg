SPECIFICATION Spec
CONSTANTS
  Shape <- ShapeC
  EdgeList <- EdgesC
  GroupRows <- GroupsC
  ChanRows <- ChansC
  BaseKind = "network"
  MaxIdx = 2
  LocNum = 0
  LocDen = 6
  MaxDepth = 99
INVARIANT EdgesAmongRows
INVARIANT NonEmpty
INVARIANT DenseLocal
PROPERTY Narrowing
VIEW ViewOf
CHECK_DEADLOCK FALSE

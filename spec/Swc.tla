-------------------------------- MODULE Swc --------------------------------
(***************************************************************************)
(* What read_swc must produce for a well-formed SWC file (io/swc.py,        *)
(* cell_utils._split_into_branches / _build_parents / _compute_pathlengths  *)
(* / _radius_generating_fns).  A file is a sequence of points               *)
(* (id, type, position, radius, parent); well-formed = one tree, ids 1..n   *)
(* in depth-first pre-order, the soma points (type 1) first as a chain.     *)
(*                                                                         *)
(* Files are GROWN one point at a time (so that TLC's workers share the     *)
(* enumeration): the STRUCTURE (every pre-ordered tree, every admissible    *)
(* type labelling, type changes along neurites included) is exhaustive;     *)
(* segment lengths and radii are seeded functions of the structure (the     *)
(* full product is hopeless).  Coordinates are axis aligned, so every       *)
(* length is an exact integer.                                              *)
(*                                                                         *)
(* Conventions (documented in read_swc / reproduced from NEURON's import3d):*)
(*  - a section ends at every point with >= 2 children and at every type    *)
(*    change; the root point starts every section that begins at it and is  *)
(*    a section of its own only for a single-point soma or a chain root;    *)
(*  - single-point soma: a cylinder of length 2r; the gap between a single- *)
(*    point soma and the first point of a neurite is ignored;               *)
(*  - a section of length 0 gets length 1;                                  *)
(*  - several sections starting at the root: the reader prepends a 0.1 um   *)
(*    connector branch of type 5 (named deviation, pinned by the            *)
(*    repository's own test_dummy_compartment_length);                      *)
(*  - radii are interpolated linearly along the traced path; a section      *)
(*    whose type differs from its parent's does not interpolate from the    *)
(*    parent's last radius (first radius := second radius).                 *)
(***************************************************************************)
EXTENDS Naturals, Sequences, FiniteSets, TLC, Json

CONSTANTS MaxN, MaxSoma, NTypes, SEEDK,
          CHAIN_ONLY,   \* TRUE: unbranched files (every point continues the previous one)
          FREE_SEG      \* TRUE: every segment length 0..3 is explored (FALSE: lengths are a seeded function of the structure)

Types == 2..(1 + NTypes)            \* neurite types (axon, basal, apical)

VARIABLES n, par, typ, seg, rad, done
svars == <<n, par, typ, seg, rad, done>>

RECURSIVE Anc(_, _)
Anc(p, i) == IF i = 1 THEN {1} ELSE {i} \cup Anc(p, p[i])      \* the current root-to-i path (DFS stack)

Init == n = 1 /\ par = <<0>> /\ typ = <<1>> /\ seg = <<0>> /\ rad = <<2 + (SEEDK % 2)>> /\ done = FALSE
SomaLen == Cardinality({i \in 1..n : typ[i] = 1})
AddPoint ==
  /\ ~done /\ n < MaxN
  /\ \E p \in (IF CHAIN_ONLY THEN {n} ELSE Anc(par, n)), t \in Types \cup {1} :
     \E s \in (IF FREE_SEG THEN 0..3 ELSE {(n * 7 + p * 3 + t + SEEDK) % 4}) :      \* segment lengths 0..3
       LET r == 1 + ((n * 5 + p + t + SEEDK) % 3) IN          \* seeded: radii 1..3
       /\ (t = 1) => (p = n /\ typ[n] = 1 /\ SomaLen < MaxSoma)     \* soma points: a chain listed first
       /\ (t # 1 /\ typ[p] = 1) => TRUE                              \* neurites may start at any soma point
       /\ n' = n + 1 /\ par' = Append(par, p) /\ typ' = Append(typ, t)
       /\ seg' = Append(seg, s) /\ rad' = Append(rad, r) /\ UNCHANGED done
Finish == ~done /\ n >= 2 /\ done' = TRUE /\ UNCHANGED <<n, par, typ, seg, rad>>
Next == AddPoint \/ Finish
Spec == Init /\ [][Next]_svars

(* ------------------------------ sections -------------------------------- *)
Kids(i) == {k \in 1..n : par[k] = i}
SinglePointSoma == n >= 2 /\ typ[2] # 1
Continues(i) == Cardinality(Kids(i)) = 1 /\ typ[CHOOSE k \in Kids(i) : TRUE] = typ[i]
RECURSIVE RunFrom(_)
RunFrom(i) == IF Continues(i) THEN <<i>> \o RunFrom(CHOOSE k \in Kids(i) : TRUE) ELSE <<i>>
LastOf(s) == s[Len(s)]
RootIsOwnSection == SinglePointSoma \/ Cardinality(Kids(1)) <= 1
Starts == (IF RootIsOwnSection THEN {1} ELSE {}) \cup
          {k \in 2..n : ~ (Continues(par[k]) /\ ~(par[k] = 1 /\ ~RootIsOwnSection))}
Sec(k) == [first |-> k, attach |-> IF k = 1 THEN 0 ELSE par[k], pts |-> RunFrom(k), type |-> typ[k]]
Sections == {Sec(k) : k \in Starts}
RECURSIVE SumSeg(_)
SumSeg(s) == IF s = <<>> THEN 0 ELSE seg[Head(s)] + SumSeg(Tail(s))
GapIgnored(S) == S.attach # 0 /\ SinglePointSoma /\ typ[S.attach] = 1 /\ S.type # 1
RawLen(S) == IF S.attach = 0 \/ GapIgnored(S) THEN SumSeg(Tail(S.pts)) ELSE SumSeg(S.pts)
Length(S) == IF S.attach = 0 /\ Len(S.pts) = 1 THEN 2 * rad[1]                 \* single-point soma: 2r
             ELSE IF RawLen(S) = 0 THEN 1 ELSE RawLen(S)                        \* zero length -> 1
ParentSec(S) == IF S.attach = 0 THEN 0
                ELSE IF \E T \in Sections : LastOf(T.pts) = S.attach /\ T # S
                     THEN (CHOOSE T \in Sections : LastOf(T.pts) = S.attach /\ T # S).first ELSE 0
NeedsConnector == Cardinality({S \in Sections : ParentSec(S) = 0}) > 1
\* type of the parent branch at the time the radius functions are built.  Named deviation
\* RootAttachedInterpolatesFromRoot (as coded): the connector branch is prepended AFTER the radius functions
\* exist, so a section that starts at the root point of a multi-point soma has no parent then and keeps
\* interpolating from the root point's radius even when its type differs.
ParentType(S) == IF ParentSec(S) # 0 THEN typ[ParentSec(S)] ELSE 0
(* radius breakpoints <<cumulative path length, radius>> along the section *)
Chain(S) == IF S.attach = 0 THEN S.pts ELSE <<S.attach>> \o S.pts
StepLen(S, i) == IF i = 2 /\ GapIgnored(S) THEN 0 ELSE seg[Chain(S)[i]]          \* length of the piece ending at chain point i
RECURSIVE Cum(_, _)
Cum(S, i) == IF i <= 1 THEN 0 ELSE Cum(S, i - 1) + StepLen(S, i)
BreakRad(S, i) == IF i = 1 /\ Len(Chain(S)) > 1 /\ ParentType(S) # 0 /\ ParentType(S) # S.type
                  THEN rad[Chain(S)[2]] ELSE rad[Chain(S)[i]]
Breakpoints(S) == IF Len(Chain(S)) = 1 THEN << <<0, rad[Chain(S)[1]]>>, <<2 * rad[Chain(S)[1]], rad[Chain(S)[1]]>> >>
                  ELSE [i \in 1..Len(Chain(S)) |-> <<Cum(S, i), BreakRad(S, i)>>]

(* ---------------- max_branch_len: a long section is cut by NUMBER OF POINTS (as coded) ---------------- *)
\* The reader's "branch" of a section is Chain(S): the attach point followed by the section's own points.
\* _split_long_branches raises the number of parts k = 1, 2, ... until the longest part is <= max_branch_len;
\* _split_branch_equally cuts the chain into parts of Len \div k points, neighbouring parts sharing one point.
\* A part needs >= 2 points: splitting stops (with a warning) as soon as one more part would leave Len \div (k + 1) < 2
\* points per part - the bound is then NOT reached (sparse reconstructions; F24 was the reader raising there).
MBLS == <<2, 5>>
Each(c, k) == Len(c) \div k
Part(c, k, i) == LET e == Each(c, k) IN
                 IF k = 1 THEN c
                 ELSE IF i = 1 THEN SubSeq(c, 1, e)
                 ELSE IF i = k THEN SubSeq(c, (k - 1) * e, Len(c))
                 ELSE SubSeq(c, (i - 1) * e, i * e)
GapChain(c) == Len(c) > 1 /\ SinglePointSoma /\ typ[c[1]] = 1 /\ typ[c[2]] # 1
StepC(c, gap, i) == IF i = 2 /\ gap THEN 0 ELSE seg[c[i]]
RECURSIVE CumC(_, _, _)
CumC(c, gap, i) == IF i <= 1 THEN 0 ELSE CumC(c, gap, i - 1) + StepC(c, gap, i)
RawC(c, gap) == IF Len(c) = 1 THEN 2 * rad[c[1]] ELSE CumC(c, gap, Len(c))
PartRaw(c, k, i) == RawC(Part(c, k, i), i = 1 /\ GapChain(c))
MaxPart(c, k) == LET ls == {PartRaw(c, k, i) : i \in 1..k} IN CHOOSE x \in ls : \A y \in ls : y <= x
RECURSIVE KFrom(_, _, _)
KFrom(c, m, k) == IF MaxPart(c, k) <= m \/ Each(c, k + 1) < 2 \/ k >= 11 THEN k ELSE KFrom(c, m, k + 1)
KOf(c, m) == KFrom(c, m, 1)
Reached(c, m) == MaxPart(c, KOf(c, m)) <= m           \* FALSE: too few traced points to get below the bound
SplitOK(m) == TRUE
PartKey(S, m, i) == IF i = 1 THEN S.first ELSE Part(Chain(S), KOf(Chain(S), m), i)[2]
LastKey(S, m) == PartKey(S, m, KOf(Chain(S), m))
SecOf(first) == CHOOSE T \in Sections : T.first = first
PartBps(S, pc, i) ==
  IF Len(pc) = 1 THEN << <<0, rad[pc[1]]>>, <<2 * rad[pc[1]], rad[pc[1]]>> >>
  ELSE [j \in 1..Len(pc) |-> <<CumC(pc, i = 1 /\ GapChain(pc), j),
                                IF j = 1 /\ i = 1 /\ ParentType(S) # 0 /\ ParentType(S) # S.type THEN rad[pc[2]] ELSE rad[pc[j]]>>]
SplitSecs(m) ==
  UNION {LET c == Chain(S) k == KOf(c, m) IN
         {[first |-> PartKey(S, m, i),
           parent |-> IF i > 1 THEN PartKey(S, m, i - 1) ELSE IF ParentSec(S) = 0 THEN 0 ELSE LastKey(SecOf(ParentSec(S)), m),
           len |-> (LET raw == PartRaw(c, k, i) IN IF raw = 0 THEN 1 ELSE raw),
           type |-> S.type, parts |-> k, reached |-> Reached(c, m),
           bps |-> PartBps(S, Part(c, k, i), i)] : i \in 1..k} : S \in Sections}
\* every part is at most max_branch_len long (before the zero-length convention), and the parts of a section add up to it
SplitRespectsTheBound ==
  done => \A mi \in 1..Len(MBLS) : SplitOK(MBLS[mi]) =>
            \A S \in Sections : LET c == Chain(S) k == KOf(c, MBLS[mi]) IN
               /\ Reached(c, MBLS[mi]) => \A i \in 1..k : PartRaw(c, k, i) <= MBLS[mi]
               /\ \A i \in 1..k : Len(Part(c, k, i)) >= 2 \/ k = 1
               /\ (Len(c) > 1 => RawC(c, GapChain(c)) = CumC(c, GapChain(c), Len(c)))
SplitKeepsTheTracedLength ==
  done => \A mi \in 1..Len(MBLS) : SplitOK(MBLS[mi]) =>
            \A S \in Sections : LET c == Chain(S) k == KOf(c, MBLS[mi]) IN
               Len(c) > 1 => (LET RECURSIVE Sum(_) Sum(i) == IF i = 0 THEN 0 ELSE PartRaw(c, k, i) + Sum(i - 1) IN Sum(k)) = RawC(c, GapChain(c))

Expected == [n |-> n, par |-> par, typ |-> typ, seg |-> seg, rad |-> rad, connector |-> NeedsConnector,
             secs |-> {[first |-> S.first, parent |-> ParentSec(S), len |-> Length(S), type |-> S.type, pts |-> S.pts,
                        bps |-> Breakpoints(S)] : S \in Sections},
             split |-> [mi \in 1..Len(MBLS) |-> [mbl |-> MBLS[mi], ok |-> SplitOK(MBLS[mi]),
                                                   secs |-> IF SplitOK(MBLS[mi]) THEN SplitSecs(MBLS[mi]) ELSE {}]]]

(* sanity of the specification itself *)
EveryPointInExactlyOneSectionBody ==
  done => \A i \in 2..n : Cardinality({S \in Sections : \E j \in 1..Len(S.pts) : S.pts[j] = i}) = 1
SectionsFormATree ==
  done => /\ \A S \in Sections : ParentSec(S) = 0 \/ \E T \in Sections : T.first = ParentSec(S)
          /\ \A S \in Sections : ParentSec(S) # S.first
TypesPartition == done => \A S \in Sections : \A j \in 1..Len(S.pts) : typ[S.pts[j]] = S.type \/ (j = 1 /\ S.first = 1)
Emit == done => PrintT(<<"FILE", ToJson(Expected)>>)
=============================================================================

------------------------------- MODULE Cable -------------------------------
(***************************************************************************)
(* The compartmental cable equation, stated independently of any solver.    *)
(*                                                                         *)
(* Units (jaxley's documented units): radius r and length l in um, axial    *)
(* resistivity ra in ohm cm, capacitance cm in uF/cm^2, membrane            *)
(* conductance density gm in mS/cm^2 (= uA/cm^2/mV), constant membrane      *)
(* current density em in uA/cm^2, point currents I in nA, v in mV, t in ms. *)
(*                                                                         *)
(* SI formulation of compartment i, multiplied through by 1e8 so that all   *)
(* unit factors are integers:                                               *)
(*   membrane area      A_i   = 2 pi r l            [um^2]  (x 1e-8 cm^2)    *)
(*   capacitance        C_i   = cm A_i              [1e-8 uF]                *)
(*   half axial resist. Rh_i  = ra (l/2) / (pi r^2) [1e4 ohm]               *)
(*   C_i dv_i/dt [1e-8 uA] = 1e7 * sum_j (v_j - v_i)/(Rh_i + Rh_j)           *)
(*                          - A_i (gm v_i - em)  +  1e5 * I_i               *)
(* (1 S * 1 mV = 1e3 uA, 1/1e4 ohm, x1e8: 1e3*1e-4*1e8 = 1e7; 1 nA = 1e-3    *)
(* uA, x1e8 = 1e5.)  A branch point is a node without capacitance and       *)
(* without membrane: Kirchhoff's law sum_k (v_k - v_bp)/Rh_k = 0 over the    *)
(* last compartment of the parent and the first compartment of each child.  *)
(***************************************************************************)
EXTENDS Morph

VARIABLE blab        \* branch labels: parameters follow a branch when branches are permuted

Key(c) == LET b == BranchOf[c] IN blab[b] * (NC + 1) + (c - Offs[b])
r(c)   == Rnd(10 * Key(c) + 1)      \* radius
l(c)   == Rnd(10 * Key(c) + 2)      \* length
ra(c)  == Rnd(10 * Key(c) + 3)      \* axial resistivity
cm(c)  == Rnd(10 * Key(c) + 4)      \* specific capacitance
v0(c)  == Rnd(10 * Key(c) + 5)      \* voltage before the step
gm(c)  == Rnd(10 * Key(c) + 6)      \* linearised membrane conductance density
em(c)  == Rnd(10 * Key(c) + 7)      \* constant membrane current density
Iext(c) == Rnd(10 * Key(c) + 8)     \* injected point current
dt     == Rnd(9001)
PI     == Rnd(9002)                 \* pi is just one more indeterminate
E7     == K(10000000)
E5     == K(100000)
E3     == K(1000)
TwoPi  == Mul(2, PI)

(* ------------------------------ SI side -------------------------------- *)
Area(c) == Mul(TwoPi, Mul(r(c), l(c)))
Cap(c)  == Mul(cm(c), Area(c))
Rh(c)   == Div(Mul(ra(c), l(c)), Mul(TwoPi, Sq(r(c))))
Gcc(i, j) == Div(E7, Add(Rh(i), Rh(j)))
Gbp(c)    == Div(E7, Rh(c))

BpMembers(p) == {CLast(p)} \cup {CFirst(b) : b \in Children(p)}
Xbp(x, p) == LET M == BpMembers(p) IN
             Div(SumOver(M, LAMBDA k : Mul(Gbp(k), x[k])), SumOver(M, LAMBDA k : Gbp(k)))
Axial(x, c) ==
  LET b == BranchOf[c] IN
  Add(SumOver(Neigh(c), LAMBDA j : Mul(Gcc(c, j), Sub(x[j], x[c]))),
      Add(IF IsParentEnd(c)  THEN Mul(Gbp(c), Sub(Xbp(x, b), x[c])) ELSE 0,
          IF IsChildStart(c) THEN Mul(Gbp(c), Sub(Xbp(x, parents[b]), x[c])) ELSE 0))
\* membrane + injected current at voltage x[c]; inj is the vector of point currents
Memb(x, inj, c) == Add(Mul(Area(c), Sub(em(c), Mul(gm(c), x[c]))), Mul(E5, inj[c]))
\* vector field F(x)[c] * Cap(c)
Rate(x, inj, c) == Add(Axial(x, c), Memb(x, inj, c))

Inj0 == [c \in Comps |-> Iext(c)]
V0   == [c \in Comps |-> v0(c)]

\* backward Euler: x is the new voltage iff  Cap (x - v) = h * Rate(x)
BwdResidual(x, v, inj, h, c) == Sub(Mul(Cap(c), Sub(x[c], v[c])), Mul(h, Rate(x, inj, c)))
\* Crank-Nicolson: Cap (x - v) = h/2 * (Rate(x) + Rate(v))
CNResidual(x, v, inj, h, c) ==
  Sub(Mul(Cap(c), Sub(x[c], v[c])), Mul(Mul(h, Half), Add(Rate(x, inj, c), Rate(v, inj, c))))
\* forward Euler: x = v + h * Rate(v) / Cap   (a definition, no system)
FwdEuler(v, inj, h) == [c \in Comps |-> Add(v[c], Div(Mul(h, Rate(v, inj, c)), Cap(c)))]

(* --------------------- per-area formulation (as coded) ------------------ *)
(* cell_utils.compute_coupling_cond / _branchpoint / compute_impact_on_node *)
(* and the division by cm done in compute_axial_conductances; stimulus      *)
(* conversion of convert_point_process_to_distributed; membrane terms as    *)
(* assembled in Module.step.                                                *)
C2C(i, j) == Div(Mul(Div(Div(Mul(r(i), Sq(r(j))),
                             Add(Mul(Mul(ra(i), Sq(r(j))), l(i)), Mul(Mul(ra(j), Sq(r(i))), l(j)))),
                         l(i)), E7), cm(i))                      \* sink i, source j
BP2C(i)   == Div(Mul(Div(r(i), Mul(ra(i), Sq(l(i)))), E7), cm(i))
C2BP(i)   == Mul(Div(Sq(r(i)), Mul(ra(i), l(i))), E3)
VT(c)     == Div(gm(c), cm(c))
CT(inj, c) == Div(Add(em(c), Mul(Div(inj[c], Area(c)), E5)), cm(c))

\* the per-area coefficients are the SI coefficients divided by the sink's capacitance
PerAreaEqualsSI ==
  /\ \A c \in Comps : \A j \in Neigh(c) : C2C(c, j) = Div(Gcc(c, j), Cap(c))
  /\ \A c \in Comps : (IsParentEnd(c) \/ IsChildStart(c)) => BP2C(c) = Div(Gbp(c), Cap(c))
  /\ \A p \in ParentBranches : \A k \in BpMembers(p) :
        \* branch-point weights only matter up to one common factor per branch point
        Mul(C2BP(k), Gbp(CLast(p))) = Mul(C2BP(CLast(p)), Gbp(k))
  /\ \A c \in Comps : Mul(Cap(c), Sub(CT(Inj0, c), Mul(VT(c), v0(c)))) = Memb(V0, Inj0, c)
=============================================================================

------------------------------- MODULE Views -------------------------------
(***************************************************************************)
(* What a chain of selectors denotes (base.py: _at_nodes, _at_edges,        *)
(* select, loc, scope, group / channel / synapse-type views,                *)
(* View._set_inds_in_view, _update_local_indices).                          *)
(*                                                                         *)
(* A module is a sequence of cells, each a sequence of branches with their  *)
(* compartment counts.  Rows are the global compartment indices 0..N-1,     *)
(* edges the global edge indices 0..M-1.  A view is (rows, eds, scope).     *)
(* Every selector is one action; an action that is not enabled is REFUSED   *)
(* by the code (it raises) - refusal is an allowed outcome, a different     *)
(* non-empty view is not.                                                   *)
(***************************************************************************)
EXTENDS Naturals, Integers, FiniteSets, Sequences, TLC

CONSTANTS Shape,      \* << <<ncomp of branch 1, ...>>, ... >> one entry per cell
          EdgeList,   \* << [pre |-> row, post |-> row, ty |-> "T1"], ... >> in creation order
          GroupRows,  \* [groupname |-> set of rows]
          ChanRows,   \* [channelname |-> set of rows]
          BaseKind,   \* "network" | "cell" | "branch": which levels the base supports
          MaxIdx,     \* selectors use index sets over 0..MaxIdx
          LocNum, LocDen,   \* loc values are LocNum[i] / LocDen
          MaxDepth

NCells == Len(Shape)
RECURSIVE SumSeq(_)
SumSeq(s) == IF s = <<>> THEN 0 ELSE Head(s) + SumSeq(Tail(s))
NBranchesBefore(c) == SumSeq([i \in 1..(c - 1) |-> Len(Shape[i])])          \* c is 1-based
NCompsOfCell(c) == SumSeq(Shape[c])
NCompsBeforeCell(c) == SumSeq([i \in 1..(c - 1) |-> NCompsOfCell(i)])
N == NCompsBeforeCell(NCells + 1)
AllRows == 0..(N - 1)
AllEdges == 0..(Len(EdgeList) - 1)
CellOf[r \in AllRows] ==
  (CHOOSE c \in 1..NCells : r >= NCompsBeforeCell(c) /\ r < NCompsBeforeCell(c) + NCompsOfCell(c)) - 1
BranchLocalOf[r \in AllRows] ==                       \* 1-based position of the branch inside its cell
  LET c == CellOf[r] + 1
      off == r - NCompsBeforeCell(c)
  IN CHOOSE b \in 1..Len(Shape[c]) :
       off >= SumSeq(SubSeq(Shape[c], 1, b - 1)) /\ off < SumSeq(SubSeq(Shape[c], 1, b))
BranchOf[r \in AllRows] == NBranchesBefore(CellOf[r] + 1) + BranchLocalOf[r] - 1      \* global, 0-based
NCompOfBranchOf(r) == Shape[CellOf[r] + 1][BranchLocalOf[r]]
FirstRowOfBranchOf(r) == CHOOSE x \in AllRows : BranchOf[x] = BranchOf[r] /\ \A y \in AllRows : BranchOf[y] = BranchOf[r] => x <= y
Pre(e)  == EdgeList[e + 1].pre
Post(e) == EdgeList[e + 1].post
TypeOf(e) == EdgeList[e + 1].ty

VARIABLES rows, eds, scope, depth,
          haslei, lei   \* the `local_edge_index` column: only synapse-type views create it (as the dense rank of
                        \* their edges); views derived from them inherit the values UNCHANGED (named deviation
                        \* StaleLocalEdgeIndex: modelled as coded, `edge` is announced to be removed upstream)
vvars == <<rows, eds, scope, depth, haslei, lei>>

Levels == CASE BaseKind = "network" -> {"cell", "branch", "comp"}
            [] BaseKind = "cell"    -> {"branch", "comp"}
            [] BaseKind = "branch"  -> {"comp"}
GlobalIdx(lv, r) == CASE lv = "cell" -> CellOf[r] [] lv = "branch" -> BranchOf[r] [] lv = "comp" -> r
(* dense rank inside the parent, computed inside the CURRENT view V (_update_local_indices) *)
LocalIdx(V, lv, r) ==
  CASE lv = "cell"   -> Cardinality({c \in {CellOf[x] : x \in V} : c < CellOf[r]})
    [] lv = "branch" -> Cardinality({b \in {BranchOf[x] : x \in {y \in V : CellOf[y] = CellOf[r]}} : b < BranchOf[r]})
    [] lv = "comp"   -> Cardinality({x \in V : BranchOf[x] = BranchOf[r] /\ x < r})
Idx(V, sc, lv, r) == IF sc = "global" THEN GlobalIdx(lv, r) ELSE LocalIdx(V, lv, r)

(* edges stay in view iff they were in view and both of their ends are (View._set_inds_in_view) *)
EdgesInside(R, E) == {e \in E : Pre(e) \in R /\ Post(e) \in R}
(* nodes touched by a set of edges, restricted to the current view *)
NodesOf(E, R) == {r \in R : \E e \in E : Pre(e) = r \/ Post(e) = r}

Tick == depth < MaxDepth /\ depth' = depth + 1
Inherit(E) == lei' = [e \in E |-> lei[e]] /\ UNCHANGED haslei
NodeView(R) == R # {} /\ rows' = R /\ eds' = EdgesInside(R, eds) /\ Inherit(EdgesInside(R, eds)) /\ UNCHANGED scope
EdgeViewCore(E) == NodesOf(E, rows) # {} /\ eds' = E /\ rows' = NodesOf(E, rows) /\ UNCHANGED scope
EdgeView(E) == EdgeViewCore(E) /\ Inherit(E)

IdxSets == (SUBSET (0..MaxIdx)) \ {{}}
\* .cell(I) / .branch(I) / .comp(I)
Select(lv, I) == Tick /\ lv \in Levels /\ NodeView({r \in rows : Idx(rows, scope, lv, r) \in I})
\* index "all"
SelectAll(lv) == Tick /\ lv \in Levels /\ NodeView(rows)
\* .scope(s)
SetScope(s) == scope # s /\ scope' = s /\ UNCHANGED <<rows, eds, depth, haslei, lei>>
\* .select(nodes=S): row labels; labels outside the view raise KeyError
SelectNodes(S) == Tick /\ S \subseteq rows /\ NodeView(S)
\* .select(edges=T)
SelectEdges(T) == Tick /\ T # {} /\ T \subseteq eds /\ EdgeView(T)
\* .<group>: the group's rows that are in view
Group(g) == Tick /\ NodeView(GroupRows[g] \cap rows)
\* .<Channel name>: the rows in view that contain the channel.  When no row in view has the channel
\* the chain denotes nothing and is refused (the code used to hand back the whole view: defect F17, repaired; ChanAsCoded
\* below keeps the old behaviour as a regression artefact).
Chan(c) == Tick /\ NodeView(ChanRows[c] \cap rows)
ChanAsCoded(c) == Tick /\ (IF ChanRows[c] \cap rows = {} THEN NodeView(rows) ELSE NodeView(ChanRows[c] \cap rows))
\* .<Synapse type>: the edges of that type in view and the compartments they touch
Syn(t) == LET E == {e \in eds : TypeOf(e) = t} IN
          /\ Tick /\ E # {} /\ EdgeViewCore(E)
          /\ haslei' = TRUE /\ lei' = [e \in E |-> Cardinality({x \in E : x < e})]
\* .edge(I) in global scope (the local edge index only exists on synapse-type views: refused otherwise)
EdgeG(I) == Tick /\ scope = "global" /\ EdgeView({e \in eds : e \in I})
\* .edge(I) in local scope: needs the local_edge_index column
EdgeL(I) == Tick /\ scope = "local" /\ haslei /\ EdgeView({e \in eds : lei[e] \in I})
(* .loc(at): in every branch in view the compartment whose interval contains `at` (at = num/LocDen),  *)
(* then restricted to the view.  Exactly at an interior compartment boundary either neighbour is      *)
(* allowed (the convention is not documented): LocComps is a set of admissible choices.               *)
LocCompsOfBranch(r0, n, num) ==          \* r0 first row of the branch, n compartments
  IF num = LocDen THEN {r0 + n - 1}
  ELSE IF (num * n) % LocDen = 0 /\ num # 0
       THEN {r0 + (num * n) \div LocDen - 1, r0 + (num * n) \div LocDen}       \* boundary: either side
       ELSE {r0 + (num * n) \div LocDen}
BranchFirstRows == {FirstRowOfBranchOf(r) : r \in rows}
Loc(num) ==
  /\ Tick
  /\ \E pick \in [BranchFirstRows -> AllRows] :
        /\ \A r0 \in BranchFirstRows : pick[r0] \in LocCompsOfBranch(r0, NCompOfBranchOf(r0), num)
        /\ NodeView({pick[r0] : r0 \in BranchFirstRows} \cap rows)

VInit == /\ rows = AllRows /\ eds = AllEdges /\ scope = "local" /\ depth = 0
         /\ haslei = FALSE /\ lei = [e \in AllEdges |-> 0]

(* ------------------------------ properties ------------------------------ *)
\* the synapses of a view are exactly... at most those among its compartments
EdgesAmongRows == \A e \in eds : Pre(e) \in rows /\ Post(e) \in rows
NonEmpty == rows # {}
\* local indices are dense ranks: 0..k-1 without gaps inside every parent
DenseLocal ==
  /\ {LocalIdx(rows, "cell", r) : r \in rows} = 0..(Cardinality({CellOf[r] : r \in rows}) - 1)
  /\ \A r \in rows :
       /\ {LocalIdx(rows, "branch", x) : x \in {y \in rows : CellOf[y] = CellOf[r]}}
            = 0..(Cardinality({BranchOf[y] : y \in {z \in rows : CellOf[z] = CellOf[r]}}) - 1)
       /\ {LocalIdx(rows, "comp", x) : x \in {y \in rows : BranchOf[y] = BranchOf[r]}}
            = 0..(Cardinality({y \in rows : BranchOf[y] = BranchOf[r]}) - 1)
\* every selector narrows the view (a view never grows back)
Narrowing == [][rows' \subseteq rows /\ eds' \subseteq eds]_vvars
=============================================================================

SPECIFICATION Spec
CONSTANTS
  BranchOfRow <- BranchOfRowMC
  Views <- ViewsMC
  K <- KMC
  T = 2
  MaxPre = 2
  MaxPost = 1
  SAMPLE = 150
  SEEDK = 0
INVARIANT CopyIsEqual
INVARIANT EqualObs
PROPERTY Independence
CONSTRAINT Emit
CHECK_DEADLOCK FALSE

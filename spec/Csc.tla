-------------------------------- MODULE Csc --------------------------------
(***************************************************************************)
(* The `jax.sparse` path: typed compartment-edge table -> axial conductance *)
(* vector (BY POSITION, as compute_axial_conductances concatenates the      *)
(* three groups) -> values and (row, col) positions -> convert_to_csc ->    *)
(* (data_inds, indices, indptr) handed to jax's spsolve, which reads the    *)
(* triple as CSR.  CscDenotesCable: the matrix spsolve sees is entry by     *)
(* entry the extended cable matrix (compartments + branch-point nodes).     *)
(***************************************************************************)
EXTENDS Hines, SequencesExt

\* Everything derived from the edge table is computed once (LET values are cached by TLC) and
\* passed around as one record.
CscOf(h) ==
  LET e    == CompEdges
      ne   == Len(e)
      \* compute_axial_conductances: three filtered groups, concatenated; aligned with the rows
      \* of the edge table BY POSITION only
      e0   == SelectSeq(e, LAMBDA x : x.ty = 0)
      e12  == SelectSeq(e, LAMBDA x : x.ty \in {1, 2})
      e34  == SelectSeq(e, LAMBDA x : x.ty \in {3, 4})
      ac   == [k \in 1..Len(e0) |-> C2C(e0[k].snk, e0[k].src)]
              \o [k \in 1..Len(e12) |-> BP2C(e12[k].snk)]
              \o [k \in 1..Len(e34) |-> C2BP(e34[k].src)]
      \* step_voltage_implicit_with_jax_spsolve: diagonal_values.at[sinks].add(dt * g), then
      \* .at[internal_node_inds].add(1 + dt * voltage_terms); off-diagonals are -dt * g
      dg   == [n \in 1..NNodes |->
                 Add(SumOver({k \in 1..ne : e[k].snk = n}, LAMBDA k : Mul(h, ac[k])),
                     IF n <= NComps THEN Add(1, Mul(h, VT(n))) ELSE 0)]
      vals == dg \o [k \in 1..ne |-> Neg(Mul(h, ac[k]))]
      \* comp_edges_to_indices: element x has (row_ind, col_ind) = (n, n) or (source, sink)
      row  == [n \in 1..NNodes |-> n] \o [k \in 1..ne |-> e[k].src]
      col  == [n \in 1..NNodes |-> n] \o [k \in 1..ne |-> e[k].snk]
      nel  == NNodes + ne
      \* convert_to_csc: np.lexsort((row_ind, col_ind)) = sort by column, then by row
      di   == SortSeq([x \in 1..nel |-> x],
                      LAMBDA a, b : col[a] < col[b] \/ (col[a] = col[b] /\ row[a] < row[b]))
  IN [ vals |-> vals, nel |-> nel, dataInds |-> di,
       indices |-> [k \in 1..nel |-> row[di[k]]],
       indptr  |-> [c \in 1..(NNodes + 1) |-> Cardinality({x \in 1..nel : col[x] < c})] ]   \* 0-based offsets
Nodes == 1..NNodes
\* jax.experimental.sparse.linalg.spsolve(data, indices, indptr, b) reads CSR: row i owns the
\* entries indptr[i]+1 .. indptr[i+1], entry k sits in column indices[k]
Denoted(m, i, j) ==
  SumOver({k \in (m.indptr[i] + 1)..m.indptr[i + 1] : m.indices[k] = j}, LAMBDA k : m.vals[m.dataInds[k]])

\* the extended per-area cable matrix the solve must denote
BpOfNode(n) == CHOOSE p \in ParentBranches : BpNode(p) = n
Expected(h, i, j) ==
  IF i <= NComps
  THEN IF j = i THEN DiagC(h, i)
       ELSE IF j \in Neigh(i) THEN Neg(Mul(h, C2C(i, j)))
       ELSE IF j > NComps /\ i \in BpMembers(BpOfNode(j)) THEN Neg(Mul(h, BP2C(i)))
       ELSE 0
  ELSE LET p == BpOfNode(i) IN
       IF j = i THEN Mul(h, SumOver(BpMembers(p), LAMBDA k : C2BP(k)))
       ELSE IF j \in BpMembers(p) THEN Neg(Mul(h, C2BP(j)))
       ELSE 0
CscWellFormed(m) ==
  /\ m.indptr[1] = 0 /\ m.indptr[NNodes + 1] = m.nel
  /\ \A c \in Nodes : m.indptr[c] <= m.indptr[c + 1]
  /\ \A i \in Nodes : \A k1, k2 \in (m.indptr[i] + 1)..m.indptr[i + 1] : k1 < k2 => m.indices[k1] < m.indices[k2]
CscDenotesCable ==
  (pc = "Config" /\ ParamsOK) =>
     LET m == CscOf(dt) IN /\ CscWellFormed(m)
                           /\ \A i, j \in Nodes : Denoted(m, i, j) = Expected(dt, i, j)
\* and the Hines solution, extended by the branch-point voltages, satisfies that same system
XExt(x) == [n \in Nodes |-> IF n <= NComps THEN x[n] ELSE Xbp(x, BpOfNode(n))]
CscSolutionCheck ==
  IF pc = "Done" /\ NonDegenerate(st)
  THEN LET xe == XExt(Solution)  rhs == RhsPA(V0, Inj0, dt) IN
       \A i \in Nodes : SumOver(Nodes, LAMBDA j : Mul(Expected(dt, i, j), xe[j])) = (IF i <= NComps THEN rhs[i] ELSE 0)
  ELSE TRUE
HinesSolvesExtendedSystem == CscSolutionCheck
=============================================================================

------------------------------- MODULE NetSim -------------------------------
(***************************************************************************)
(* Networks with synapses: the edge table, per-edge parameters and states,  *)
(* recordings / clamps of synaptic states, and what integrate() must return *)
(* - as integers (network.py: _append_multiple_synapses, _step_synapse,     *)
(* _synapse_currents; base.py: record, clamp, set through edge views).      *)
(*                                                                         *)
(* Probe synapse types (ordinary user-level Synapse subclasses):            *)
(*   P: state P_s := presynaptic voltage of the previous time point,        *)
(*      current -P_w * P_s nA (so the post compartment gains P_w*P_s*K mV)  *)
(*   Q: state Q_s := Q_s + 1 per step, current -Q_w * Q_s nA                *)
(* Every compartment is an isolated capacitor with K[r] mV per nA and step  *)
(* (as in ProbeSim.tla); initial voltage of row r is r + 1.                 *)
(* Order inside a step as coded: synaptic states are updated from the OLD   *)
(* voltages, the currents use the updated states, then clamps of synaptic   *)
(* states are applied (the recorded state is the clamp value, the current   *)
(* of that step was computed before), then the voltages are updated.        *)
(*                                                                         *)
(* Edges are identified by their global index (creation order); a view of   *)
(* edges is one of: all edges of a type, the k-th edge of a type.           *)
(***************************************************************************)
EXTENDS Naturals, Integers, Sequences, FiniteSets, TLC

CONSTANTS NRows, K, T, PreSites, PostSites, MaxEdges, MaxEdits, MaxTrainables

Rows == 0..(NRows - 1)
Types == {"P", "Q"}

VARIABLES edges,   \* sequence of [pre, post, ty]
          w,       \* sequence: weight of every edge (column <ty>_w)
          s0,      \* sequence: initial state of every edge (column <ty>_s)
          recs,    \* sequence of <<"v", row>> | <<"s", edge>> | <<"i", edge>>
          stim,    \* sequence of <<row, input id>>
          ecl,     \* sequence of <<edge, input id>>: clamps of the synaptic state
          tr,      \* trainable weights: sequence of [groups |-> set of edge sets sharing one value, val]
          nin, nedit, obs
nvars == <<edges, w, s0, recs, stim, ecl, tr, nin, nedit, obs>>

Init == edges = <<>> /\ w = <<>> /\ s0 = <<>> /\ recs = <<>> /\ stim = <<>> /\ ecl = <<>> /\ tr = <<>> /\ nin = 0 /\ nedit = 0 /\ obs = <<>>

NE == Len(edges)
E == 1..NE                                  \* edge e has global index e - 1
OfType(ty) == {e \in E : edges[e].ty = ty}
RECURSIVE SeqOfSet(_)
SeqOfSet(S) == IF S = {} THEN <<>> ELSE LET m == CHOOSE x \in S : \A y \in S : x <= y IN <<m>> \o SeqOfSet(S \ {m})
\* edge views: [kind |-> "type", ty] = net.<Type>;  [kind |-> "kth", ty, k] = net.<Type>.edge(k)
\*             [kind |-> "rows", ty, k] = net.select(nodes = RowSets[k]): the synapses with BOTH ends among these compartments;
\*             a key <ty>_w set through it reaches the synapses of that type inside it (other types share the view, not the column)
RowSets == <<{0, 1, 2, 3, 4}, {3, 4, 5}, {0}, {1}>>         \* the last two: single compartments whose INDEX equals that of a synapse
ViewEdges(ev) == IF ev.kind = "type" THEN OfType(ev.ty)
                 ELSE IF ev.kind = "rows" THEN {e \in OfType(ev.ty) : edges[e].pre \in RowSets[ev.k] /\ edges[e].post \in RowSets[ev.k]}
                 ELSE IF ev.k < Cardinality(OfType(ev.ty)) THEN {SeqOfSet(OfType(ev.ty))[ev.k + 1]} ELSE {}
EdgeViews == [kind : {"type"}, ty : Types, k : {0}] \cup [kind : {"kth"}, ty : Types, k : {0, 1}]
RowViews == [kind : {"rows"}, ty : Types, k : {1, 2}]
DelRecViews == EdgeViews \cup [kind : {"rows"}, ty : {"P"}, k : 1..Len(RowSets)]
Range(s) == {s[i] : i \in DOMAIN s}

Wiring == obs = <<>> /\ nedit = 0
Editing == obs = <<>> /\ nedit < MaxEdits
\* connect(pre compartment, post compartment, Type())
ConnectOp(pre, post, ty) ==
  /\ edges' = Append(edges, [pre |-> pre, post |-> post, ty |-> ty])
  /\ w' = Append(w, 1) /\ s0' = Append(s0, 0)
  /\ UNCHANGED <<recs, stim, ecl, nin, nedit, obs, tr>>
\* (the bounded model wires first and edits afterwards; a recorded history may interleave them: Trace_Net.tla uses ConnectOp)
Connect(pre, post, ty) == Wiring /\ NE < MaxEdges /\ ConnectOp(pre, post, ty)
\* <edge view>.set("<ty>_w", x)
SetW(x, ev) ==
  /\ Editing /\ ViewEdges(ev) # {}
  /\ w' = [e \in E |-> IF e \in ViewEdges(ev) THEN x ELSE w[e]]
  /\ nedit' = nedit + 1 /\ UNCHANGED <<edges, s0, recs, stim, ecl, nin, obs, tr>>
\* <edge view>.set("<ty>_s", x): initial synaptic state
SetS(x, ev) ==
  /\ Editing /\ ViewEdges(ev) # {}
  /\ s0' = [e \in E |-> IF e \in ViewEdges(ev) THEN x ELSE s0[e]]
  /\ nedit' = nedit + 1 /\ UNCHANGED <<edges, w, recs, stim, ecl, nin, obs, tr>>
\* <edge view>.record("<ty>_s") / record("i_<ty>")
RecordE(what, ev) ==
  LET new == SelectSeq([i \in 1..Cardinality(ViewEdges(ev)) |-> <<what, SeqOfSet(ViewEdges(ev))[i]>>], LAMBDA p : p \notin Range(recs))
  IN /\ Editing /\ ViewEdges(ev) # {}
     /\ recs' = recs \o new
     /\ nedit' = nedit + 1 /\ UNCHANGED <<edges, w, s0, stim, ecl, nin, obs, tr>>
\* <view>.delete_recordings(): the recordings of the synapses IN THE VIEW go (for a node selection: both ends inside it),
\* every other recording stays - in particular that of a synapse whose index happens to equal a compartment index in view
AllViewEdges(ev) == IF ev.kind = "rows" THEN {e \in E : edges[e].pre \in RowSets[ev.k] /\ edges[e].post \in RowSets[ev.k]} ELSE ViewEdges(ev)
DelRecE(ev) ==
  /\ Editing /\ recs # <<>>
  /\ (ev.kind = "rows" \/ ViewEdges(ev) # {})            \* a type view exists only if the network has a synapse of that type
  /\ recs' = SelectSeq(recs, LAMBDA p : p[2] \notin AllViewEdges(ev))
  /\ nedit' = nedit + 1 /\ UNCHANGED <<edges, w, s0, stim, ecl, nin, obs, tr>>
\* <type view>.make_trainable("<ty>_w", x)            : ONE value shared by all synapses of the view
\* <type view>.edge("all").make_trainable("<ty>_w", x) : one value per synapse
\* What is simulated is the table weight overridden by the trainables in the order they were made (EffW below).
TrainW(x, ev, each) ==
  /\ Editing /\ ev.kind # "rows" /\ ViewEdges(ev) # {} /\ Len(tr) < MaxTrainables
  /\ tr' = Append(tr, [groups |-> IF each THEN {{e} : e \in ViewEdges(ev)} ELSE {ViewEdges(ev)}, val |-> x])
  /\ nedit' = nedit + 1 /\ UNCHANGED <<edges, w, s0, recs, stim, ecl, nin, obs>>
\* <view>.delete_trainables(): every sharing group loses the synapses of the view; emptied groups and trainables disappear
DelTrainE(ev) ==
  LET V == AllViewEdges(ev)
      cut(q) == [q EXCEPT !.groups = {G \ V : G \in q.groups} \ {{}}]
      RECURSIVE go(_)
      go(q) == IF q = <<>> THEN <<>> ELSE (IF cut(Head(q)).groups = {} THEN <<>> ELSE <<cut(Head(q))>>) \o go(Tail(q))
  IN /\ Editing /\ tr # <<>> /\ (ev.kind = "rows" \/ ViewEdges(ev) # {})
     /\ tr' = go(tr)
     /\ nedit' = nedit + 1 /\ UNCHANGED <<edges, w, s0, recs, stim, ecl, nin, obs>>
RECURSIVE ApplyTr(_, _)
ApplyTr(vec, i) == IF i > Len(tr) THEN vec
                   ELSE ApplyTr([e \in E |-> IF e \in UNION tr[i].groups THEN tr[i].val ELSE vec[e]], i + 1)
EffW == ApplyTr(w, 1)
\* <edge view>.clamp("<ty>_s", series)
ClampE(ev) ==
  /\ Editing /\ ViewEdges(ev) # {}
  /\ nin' = nin + 1
  /\ ecl' = ecl \o [i \in 1..Cardinality(ViewEdges(ev)) |-> <<SeqOfSet(ViewEdges(ev))[i], nin + 1>>]
  /\ nedit' = nedit + 1 /\ UNCHANGED <<edges, w, s0, recs, stim, obs, tr>>
\* net.select(nodes=[row]).stimulate(series)
Stim(row) ==
  /\ Editing
  /\ nin' = nin + 1 /\ stim' = Append(stim, <<row, nin + 1>>)
  /\ nedit' = nedit + 1 /\ UNCHANGED <<edges, w, s0, recs, ecl, obs, tr>>

(* ------------------------------ simulation ------------------------------ *)
StimAmp(j, k) == 10 * j + k
ClampVal(j, k) == 50 * j + k
RECURSIVE SumSeq(_)
SumSeq(q) == IF q = <<>> THEN 0 ELSE Head(q) + SumSeq(Tail(q))
StimAt(k, r) == SumSeq([i \in DOMAIN stim |-> IF stim[i][1] = r THEN StimAmp(stim[i][2], k) ELSE 0])
RECURSIVE ApplyClamps(_, _, _)
ApplyClamps(k, vec, i) == IF i > Len(ecl) THEN vec
                          ELSE ApplyClamps(k, [vec EXCEPT ![ecl[i][1]] = ClampVal(ecl[i][2], k)], i + 1)
Sim0 == [v |-> [r \in Rows |-> r + 1], s |-> s0, cur |-> [e \in E |-> EffW[e] * s0[e]]]
SimStep(S, k) ==
  LET s1 == [e \in E |-> IF edges[e].ty = "P" THEN S.v[edges[e].pre] ELSE S.s[e] + 1]      \* from the OLD voltages
      cur == [e \in E |-> EffW[e] * s1[e]]                                                      \* currents use the updated state
      s2 == ApplyClamps(k, s1, 1)                                                             \* then the clamps
      v1 == [r \in Rows |-> S.v[r] + K[r + 1] * (StimAt(k, r) + SumSeq([e \in E |-> IF edges[e].post = r THEN cur[e] ELSE 0]))]
  IN [v |-> v1, s |-> s2, cur |-> cur]
RECURSIVE SimRun(_, _)
SimRun(S, k) == IF k > T THEN <<S>> ELSE <<S>> \o SimRun(SimStep(S, k), k + 1)
Read(S, p) == CASE p[1] = "v" -> S.v[p[2]] [] p[1] = "s" -> S.s[p[2]] [] p[1] = "i" -> S.cur[p[2]]
AllRecs == [r \in 1..NRows |-> <<"v", r - 1>>] \o recs          \* the harness always records v of every compartment first
Obs == LET run == SimRun(Sim0, 1) IN [i \in DOMAIN AllRecs |-> [c \in 1..(T + 1) |-> Read(run[c], AllRecs[i])]]
Integrate == /\ obs = <<>> /\ NE > 0 /\ obs' = Obs /\ UNCHANGED <<edges, w, s0, recs, stim, ecl, nin, nedit, tr>>

(* ------------------------------ properties ------------------------------ *)
\* C09: results do not depend on the order in which synapses were created (reversal of the creation order)
Rev(q) == [i \in DOMAIN q |-> q[Len(q) + 1 - i]]
VoltagesOf(ed, ww, ss) ==
  LET RECURSIVE run(_, _, _)
      run(v, s, k) ==
        IF k > T THEN v
        ELSE LET s1 == [e \in DOMAIN ed |-> IF ed[e].ty = "P" THEN v[ed[e].pre] ELSE s[e] + 1]
                 v1 == [r \in Rows |-> v[r] + K[r + 1] * SumSeq([e \in DOMAIN ed |-> IF ed[e].post = r THEN ww[e] * s1[e] ELSE 0])]
             IN run(v1, s1, k + 1)
  IN run([r \in Rows |-> r + 1], ss, 1)
CreationOrderIrrelevant == (ecl = <<>> /\ stim = <<>> /\ tr = <<>>) => VoltagesOf(edges, w, s0) = VoltagesOf(Rev(edges), Rev(w), Rev(s0))
\* C09: synapses with zero weight leave every compartment as if simulated alone
ZeroWeightIsIsolation == ((\A e \in E : w[e] = 0) /\ stim = <<>> /\ tr = <<>>) => VoltagesOf(edges, w, s0) = [r \in Rows |-> r + 1]
\* C09: a compartment without incoming synapse and without stimulus keeps its voltage
OnlyPostCompartmentsMove ==
  (stim = <<>> /\ tr = <<>>) => \A r \in Rows : (\A e \in E : edges[e].post # r) => VoltagesOf(edges, w, s0)[r] = r + 1
\* a trainable reaches all and only the synapses of its groups, later trainables first (C10 for synaptic parameters)
TrainablesReachTheirSynapses ==
  \A i \in DOMAIN tr : \A G \in tr[i].groups : \A e \in G :
     (\A j \in (i + 1)..Len(tr) : e \notin UNION tr[j].groups) => EffW[e] = tr[i].val
UntrainedSynapsesKeepTheirTableWeight == \A e \in E : (\A i \in DOMAIN tr : e \notin UNION tr[i].groups) => EffW[e] = w[e]
RefsExist == /\ \A i \in DOMAIN recs : recs[i][2] \in E
             /\ \A i \in DOMAIN tr : \A G \in tr[i].groups : G # {} /\ G \subseteq E
             /\ \A i \in DOMAIN ecl : ecl[i][1] \in E
=============================================================================

------------------------------ MODULE Stimulus ------------------------------
(* jaxley/stimulus.py in grid units (delay = a dt, duration = b dt, t_max = m dt, all measured in time steps):
   what step_current / datapoint_to_step_currents return, and how that array meets integrate's t_max rule
   (Integrate.tla: t_max_steps = m + 1; longer inputs are truncated, shorter ones padded with zeros).

   AS CODED: the array has m + 2 samples (one more than integrate(t_max = m dt) consumes, so the last sample
   never acts); a window that starts beyond the array is silently empty, one that ends beyond it is clipped;
   a negative delay is not refused (Python slice semantics: counted from the end) - the generator below keeps
   a >= 0.  Not one of the listed properties: it extends the specification's coverage (C08 only fixes what a
   sample does once it is in the array). *)
EXTENDS Integers, Sequences, FiniteSets, TLC, Json

CONSTANTS MaxA, MaxB, MaxM

Len2(m) == m + 2
StepCurrent(a, b, amp, m, off) == [k \in 1..Len2(m) |-> IF a < k /\ k <= a + b THEN amp ELSE off]    \* 0-based window [a, a+b)
StepCurrents(a, b, amps, m, off) == [i \in 1..Len(amps) |-> StepCurrent(a, b, amps[i], m, off)]

\* what integrate(t_max = m dt) makes of an input sequence (Integrate.tla's Pad / Truncate)
Consumed(seq, m) == [k \in 1..(m + 1) |-> IF k <= Len(seq) THEN seq[k] ELSE 0]

VARIABLES a, b, m, amp, off, done
svars == <<a, b, m, amp, off, done>>
Init == a = 0 /\ b = 0 /\ m = 0 /\ amp = 0 /\ off = 0 /\ done = FALSE
Choose == /\ ~done
          /\ a' \in 0..MaxA /\ b' \in 0..MaxB /\ m' \in 0..MaxM /\ amp' \in {3, -2} /\ off' \in {0, 1}
          /\ done' = TRUE
Next == Choose
Spec == Init /\ [][Next]_svars

S == StepCurrent(a, b, amp, m, off)
\* number of samples that carry the amplitude = the part of the window inside the array
AmplitudeSamples == done => Cardinality({k \in 1..Len(S) : S[k] = amp /\ amp # off}) =
                              (IF a >= Len2(m) THEN 0 ELSE (IF a + b <= Len2(m) THEN b ELSE Len2(m) - a))
LengthIsTmaxPlusTwo == done => Len(S) = m + 2
\* integrate(t_max = m dt) consumes the first m + 1 samples unchanged: no padding ever happens, exactly one sample is dropped
FitsIntegrate == done => (Consumed(S, m) = SubSeq(S, 1, m + 1) /\ Len(S) = Len(Consumed(S, m)) + 1)
\* charge delivered to the compartment in units of nA dt (C08: sample k adds S[k] dt): amplitude * steps inside both windows
Sum(seq) == LET RECURSIVE F(_) F(i) == IF i = 0 THEN 0 ELSE seq[i] + F(i - 1) IN F(Len(seq))
Min2(x, y) == IF x < y THEN x ELSE y
DeliveredCharge == (done /\ off = 0) => Sum(Consumed(S, m)) = amp * (IF a >= m + 1 THEN 0 ELSE Min2(b, m + 1 - a))
\* the vectorised variant is the single one per amplitude
RowsAreSingles == done => StepCurrents(a, b, <<amp, 5>>, m, off)[1] = S

Emit == done => PrintT(<<"STIM", ToJson([a |-> a, b |-> b, m |-> m, amp |-> amp, off |-> off, out |-> S,
                                          consumed |-> Consumed(S, m), rows |-> StepCurrents(a, b, <<amp, 5>>, m, off)])>>)
=============================================================================

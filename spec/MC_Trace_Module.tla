-------------------------- MODULE MC_Trace_Module --------------------------
EXTENDS Trace_Module
BranchOfRowMC == <<0, 0, 1, 2, 2, 2>>
ViewsMC == [ all  |-> [rows |-> 0..5,      by |-> "one"],
             b0   |-> [rows |-> {0, 1},    by |-> "branch"],
             b01  |-> [rows |-> {0, 1, 2}, by |-> "branch"],
             b12  |-> [rows |-> {2, 3, 4, 5}, by |-> "branch"],
             c0   |-> [rows |-> {0, 2, 3}, by |-> "comp"],
             mid  |-> [rows |-> {1, 2, 3}, by |-> "comp"],
             last |-> [rows |-> {5},       by |-> "comp"] ]
KMC == <<2, 4, 6, 8, 10, 12>>
=============================================================================

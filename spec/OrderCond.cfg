INIT Init
NEXT Next
CONSTANTS
  P = 46337
  SEED = 5
  NMAX = 8
INVARIANT SecondOrderInSpace
INVARIANT BwdEulerExactOnLinear
INVARIANT CrankNicolsonExactOnQuadratic
INVARIANT BwdEulerNotSecondOrder
CHECK_DEADLOCK FALSE

SPECIFICATION Spec
CONSTANTS
  MaxDepth = 2
  SAMPLE = 1
  SEEDK = 0
CONSTRAINT Constr
INVARIANT TypeOK
INVARIANT CentresIntegral
INVARIANT LengthsPreserved
INVARIANT WholeCellViewsKeepCellsTogether
INVARIANT MoveToReachesItsTarget
INVARIANT StoredCentresAreSpacedLikeTheBranch
PROPERTY RigidOnTheView
PROPERTY OutsideTheViewNothingMoves
CHECK_DEADLOCK FALSE

SPECIFICATION Spec
CONSTANTS
  Parents <- ParentsB
  Init0 <- InitB
  NMax = 3
  MaxCalls = 2
  GroupBranches <- GroupsMC
INVARIANT ContiguousRows
INVARIANT GroupsAreWholeBranches
PROPERTY OthersUntouched
CONSTRAINT Emit
CHECK_DEADLOCK FALSE

------------------------------- MODULE Copies -------------------------------
(***************************************************************************)
(* C18: pickling / deep-copying a module.  Two instances of the module      *)
(* specification (tables + integer observation).  Before the copy exists,   *)
(* every editing call acts on both instances alike (the twin is only a      *)
(* bookkeeping device); Copy(kind) creates the second module EQUAL IN EVERY *)
(* VARIABLE; afterwards a call acts on exactly one of the two and leaves    *)
(* the other unchanged (Independence).  The harness replays sampled         *)
(* histories with pickle.loads(pickle.dumps(m)) / copy.deepcopy(m) as the   *)
(* Copy step and compares BOTH real modules with BOTH abstract states.      *)
(***************************************************************************)
EXTENDS Naturals, Integers, Sequences, FiniteSets, TLC, Json

CONSTANTS BranchOfRow, Views, K, T, MaxPre, MaxPost, SAMPLE, SEEDK

VARIABLES has1, col1, colset1, reg1, curs1, groups1, recs1, ext1, nin1, trains1, depth1,
          has2, col2, colset2, reg2, curs2, groups2, recs2, ext2, nin2, trains2, depth2,
          phase, hist
vars1 == <<has1, col1, colset1, reg1, curs1, groups1, recs1, ext1, nin1, trains1, depth1>>
vars2 == <<has2, col2, colset2, reg2, curs2, groups2, recs2, ext2, nin2, trains2, depth2>>

M1 == INSTANCE ProbeSim WITH has <- has1, col <- col1, colset <- colset1, reg <- reg1, curs <- curs1, groups <- groups1,
                             recs <- recs1, ext <- ext1, nin <- nin1, trains <- trains1, depth <- depth1,
                             MaxDepth <- 99, AS_CODED_PAD <- FALSE, AS_CODED_DEL <- FALSE
M2 == INSTANCE ProbeSim WITH has <- has2, col <- col2, colset <- colset2, reg <- reg2, curs <- curs2, groups <- groups2,
                             recs <- recs2, ext <- ext2, nin <- nin2, trains <- trains2, depth <- depth2,
                             MaxDepth <- 99, AS_CODED_PAD <- FALSE, AS_CODED_DEL <- FALSE

Init == M1!MInit /\ M2!MInit /\ phase = "pre" /\ hist = <<>>

\* the alphabet: op codes with their arguments, applied to instance 1 and/or 2
Ops == [op : {"insert", "delete"}, a : {"A", "B"}, b : {"all", "b01", "c0", "last"}, x : {0}]
       \cup [op : {"set"}, a : {"radius", "v", "A_g", "sh"}, b : {"all", "c0", "last"}, x : {2}]
       \cup [op : {"train"}, a : {"radius", "A_g"}, b : {"b01", "c0"}, x : {2}]
       \cup [op : {"group"}, a : {"g1"}, b : {"b0", "last"}, x : {0}]
       \cup [op : {"record"}, a : {"v", "A_s"}, b : {"all", "last"}, x : {0}]
       \cup [op : {"stim"}, a : {"i"}, b : {"b0", "last"}, x : {0}]
       \cup [op : {"clamp"}, a : {"v"}, b : {"last"}, x : {0}]
       \cup [op : {"delrec", "deltrain", "delstim"}, a : {"-"}, b : {"all", "c0"}, x : {0}]
Act1(o) == CASE o.op = "insert" -> M1!Insert(o.a, o.b) [] o.op = "delete" -> M1!DeleteChannel(o.a, o.b)
             [] o.op = "set" -> M1!Set(o.a, o.x, o.b) [] o.op = "train" -> M1!MakeTrainable(o.a, o.x, o.b)
             [] o.op = "group" -> M1!AddToGroup(o.a, o.b) [] o.op = "record" -> M1!Record(o.a, o.b)
             [] o.op = "stim" -> M1!Stimulate(o.b) [] o.op = "clamp" -> M1!Clamp(o.a, o.b)
             [] o.op = "delrec" -> M1!DeleteRecordings(o.b) [] o.op = "deltrain" -> M1!DeleteTrainables(o.b)
             [] o.op = "delstim" -> M1!DeleteStimuli(o.b)
Act2(o) == CASE o.op = "insert" -> M2!Insert(o.a, o.b) [] o.op = "delete" -> M2!DeleteChannel(o.a, o.b)
             [] o.op = "set" -> M2!Set(o.a, o.x, o.b) [] o.op = "train" -> M2!MakeTrainable(o.a, o.x, o.b)
             [] o.op = "group" -> M2!AddToGroup(o.a, o.b) [] o.op = "record" -> M2!Record(o.a, o.b)
             [] o.op = "stim" -> M2!Stimulate(o.b) [] o.op = "clamp" -> M2!Clamp(o.a, o.b)
             [] o.op = "delrec" -> M2!DeleteRecordings(o.b) [] o.op = "deltrain" -> M2!DeleteTrainables(o.b)
             [] o.op = "delstim" -> M2!DeleteStimuli(o.b)
\* (View.delete_trainables used to be subject to the defects F18/F19 and was kept out of the histories; it is repaired now)
Avoid(o) == FALSE
Pre(o) == /\ phase = "pre" /\ Len(hist) < MaxPre /\ ~Avoid(o)
          /\ Act1(o) /\ Act2(o)
          /\ hist' = Append(hist, [side |-> 0, o |-> o]) /\ UNCHANGED phase
Copy(kind) == /\ phase = "pre" /\ phase' = "post"
              /\ hist' = Append(hist, [side |-> 0, o |-> [op |-> kind, a |-> "-", b |-> "-", x |-> 0]])
              /\ UNCHANGED <<vars1, vars2>>
NPost == Cardinality({i \in DOMAIN hist : hist[i].side # 0})
OnOriginal(o) == /\ phase = "post" /\ NPost < MaxPost /\ ~Avoid(o) /\ Act1(o) /\ UNCHANGED vars2
                 /\ hist' = Append(hist, [side |-> 1, o |-> o]) /\ UNCHANGED phase
OnCopy(o) == /\ phase = "post" /\ NPost < MaxPost /\ ~Avoid(o) /\ Act2(o) /\ UNCHANGED vars1
             /\ hist' = Append(hist, [side |-> 2, o |-> o]) /\ UNCHANGED phase
Next == \/ \E o \in Ops : Pre(o) \/ OnOriginal(o) \/ OnCopy(o)
        \/ \E kind \in {"pickle", "deepcopy"} : Copy(kind)
Spec == Init /\ [][Next]_<<vars1, vars2, phase, hist>>

(* ------------------------------ properties ------------------------------ *)
Tables1 == <<has1, col1, colset1, reg1, curs1, groups1, recs1, ext1, trains1>>
Tables2 == <<has2, col2, colset2, reg2, curs2, groups2, recs2, ext2, trains2>>
\* until the copy diverges the two modules are equal in every variable
CopyIsEqual == (phase = "pre" \/ NPost = 0) => Tables1 = Tables2
\* editing one module never changes the other
Independence == [][(phase = "post" /\ phase' = "post") => (vars1' = vars1 \/ vars2' = vars2)]_<<vars1, vars2, phase, hist>>
\* equal tables give equal simulations
EqualObs == (Tables1 = Tables2 /\ M1!CanIntegrate) => M1!Obs = M2!Obs

RECURSIVE HashSeq(_, _)
Code(s) == CASE s = "insert" -> 3 [] s = "delete" -> 5 [] s = "set" -> 7 [] s = "train" -> 11 [] s = "group" -> 13 [] s = "record" -> 17
             [] s = "stim" -> 19 [] s = "clamp" -> 23 [] s = "delrec" -> 29 [] s = "deltrain" -> 31 [] s = "delstim" -> 37
             [] s = "pickle" -> 41 [] s = "deepcopy" -> 43 [] s = "A" -> 2 [] s = "B" -> 3 [] s = "all" -> 5 [] s = "b01" -> 7
             [] s = "c0" -> 11 [] s = "last" -> 13 [] s = "b0" -> 17 [] s = "radius" -> 19 [] s = "v" -> 23 [] s = "A_g" -> 29
             [] s = "sh" -> 31 [] s = "A_s" -> 37 [] OTHER -> 1
HashSeq(q, acc) == IF q = <<>> THEN acc
                   ELSE HashSeq(Tail(q), (acc * 211 + (Code(Head(q).o.op) * 101 + Code(Head(q).o.a) * 53 + Code(Head(q).o.b) * 17 + Head(q).side * 7) + 1) % 1000003)
Eff1 == [k \in M1!Keys |-> M1!Eff(k)]
Eff2 == [k \in M2!Keys |-> M2!Eff(k)]
St(hs, cl, cs, rg, cu, gr, rc, ex, ni, tr, ef, ob) ==
  [has |-> hs, col |-> cl, colset |-> cs, reg |-> rg, curs |-> cu, groups |-> gr, recs |-> rc, ext |-> ex, nin |-> ni, trains |-> tr,
   eff |-> ef, obs |-> ob]
Emit == (phase = "post" /\ HashSeq(hist, 17) % SAMPLE = SEEDK % SAMPLE) =>
   PrintT(<<"COPYSTATE", ToJson([hist |-> hist,
        a |-> St(has1, col1, colset1, reg1, curs1, groups1, recs1, ext1, nin1, trains1, Eff1, IF M1!CanIntegrate THEN M1!Obs ELSE <<>>),
        b |-> St(has2, col2, colset2, reg2, curs2, groups2, recs2, ext2, nin2, trains2, Eff2, IF M2!CanIntegrate THEN M2!Obs ELSE <<>>)])>>)
=============================================================================

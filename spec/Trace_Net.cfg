SPECIFICATION TraceSpec
CONSTANTS
  NRows = 6
  K <- KMC
  T = 2
  PreSites = {0}
  PostSites = {1}
  MaxEdges = 100000
  MaxEdits = 100000
  MaxTrainables = 100000
CONSTRAINT Progress
CHECK_DEADLOCK FALSE

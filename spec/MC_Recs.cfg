SPECIFICATION Spec
CONSTANTS
  BranchOfRow <- BranchOfRowMC
  Views <- ViewsMC
  K <- KMC
  T = 2
  MaxDepth = 3
  AS_CODED_PAD = FALSE
  AS_CODED_DEL = FALSE
  ACTS = {"record", "delrec"}
INVARIANT TypeOK
INVARIANT RegistryMatchesTables
INVARIANT ChannelParamsExactlyWherePresent
INVARIANT NoOrphanValues
INVARIANT RefsExist
INVARIANT RecordingsDuplicateFree
INVARIANT TrainablesTouchOnlyTheirRows
INVARIANT TrainablesReachTheirRows
INVARIANT DeleteUndoesInsert
INVARIANT DeleteKeepsOthers
PROPERTY IntegrateIsPure
PROPERTY WriteStoresSimulated
VIEW StateView
CHECK_DEADLOCK FALSE

---------------------------- MODULE MC_Geometry ----------------------------
(* Model-checking harness of Geometry.tla: bounded histories, emission of a deterministic sample of the
   reached states (all of them below the depth bound) as JSON for the replay into the real module. *)
EXTENDS Geometry, Json

CONSTANTS SAMPLE, SEEDK

VCode(v) == CASE v = "net" -> 1 [] v = "cell0" -> 2 [] v = "cell1" -> 3 [] v = "cell0.branch1" -> 4 [] v = "cells.branch0" -> 5
B(u) == IF u THEN 1 ELSE 0
OpCode(h) == CASE h.op = "move" -> 10 + VCode(h.view) * 7 + h.d[1] + B(h.upd) * 3
               [] h.op = "move_to" -> 60 + VCode(h.view) * 7 + h.t[1] + B(h.upd) * 3
               [] h.op = "move_to_each" -> 110 + VCode(h.view) * 7 + h.ts[1][1] + B(h.upd) * 3
               [] h.op = "rotate" -> 160 + VCode(h.view) * 13 + h.q * 5 + Dims(h.ax)[1] + Dims(h.ax)[2] * 2 + B(h.upd) * 3
               [] h.op = "centres" -> 300 + VCode(h.view)
               [] h.op = "distance" -> 320 + h.a[1] * 11 + h.a[2] * 5 + h.b[1] * 3 + h.b[2]
RECURSIVE HashSeq(_, _)
HashSeq(q, acc) == IF q = <<>> THEN acc ELSE HashSeq(Tail(q), (acc * 211 + OpCode(Head(q)) * 1009 + 7) % 1000003)
Hash == HashSeq(hist, 17) % SAMPLE

Emit == (Len(hist) < MaxDepth \/ Hash = SEEDK % SAMPLE) =>
          PrintT(<<"GEO", ToJson([hist |-> hist, xyz |-> xyz, nodes |-> [b \in Branches |-> [k \in 1..NComp[b] |-> nodes[<<b, k>>]]],
                                 obs |-> obs, split |-> split])>>)
Constr == Emit
=============================================================================

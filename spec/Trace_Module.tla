---------------------------- MODULE Trace_Module ----------------------------
(***************************************************************************)
(* Code -> specification: validates histories RECORDED from the real jaxley *)
(* (long random sequences of editing calls on the probe cell, each call     *)
(* logged at its return with its arguments, whether it raised, and the      *)
(* projected post-state of every public table incl. get_all_parameters /    *)
(* get_all_states) against the actions of JaxleyModule.tla.  An accepted    *)
(* call must be an enabled action whose successor equals the logged state;  *)
(* a call that raised must be a DISABLED action and must have changed       *)
(* nothing.  Many traces are validated per TLC run (one initial state per   *)
(* trace); the harness reads how far each trace was matched.                *)
(***************************************************************************)
EXTENDS ProbeSim, Json, IOUtils

Tr == JsonDeserialize(IOEnv.TRACE_FILE)          \* sequence of traces; a trace is a sequence of events
VARIABLES tid, l
tvars == <<mvars, tid, l>>

SeqToSet(s) == {s[i] : i \in DOMAIN s}
Pairs(s) == [i \in DOMAIN s |-> <<s[i][1], s[i][2]>>]
LHas(p)    == [r \in Rows |-> SeqToSet(p.has[r + 1])]
LCol(p)    == [k \in Keys |-> [r \in Rows |-> p.col[k][r + 1]]]
LGroups(p) == [g \in GroupNames |-> SeqToSet(p.groups[g])]
LExt(p)    == [k \in ExtKeys |-> Pairs(p.ext[k])]
LTrains(p) == [i \in DOMAIN p.trains |->
                 [key |-> p.trains[i].key,
                  groups |-> {SeqToSet(p.trains[i].groups[g]) : g \in DOMAIN p.trains[i].groups},
                  val |-> p.trains[i].val]]
PostMatches(p) ==
  /\ has' = LHas(p) /\ col' = LCol(p) /\ colset' = SeqToSet(p.colset)
  /\ reg' = p.reg /\ curs' = p.curs /\ groups' = LGroups(p)
  /\ recs' = Pairs(p.recs) /\ ext' = LExt(p) /\ nin' = p.nin /\ trains' = LTrains(p)
\* what the simulation would use, as the real get_all_parameters / get_all_states returned it
EffMatches(p) == \A k \in Keys : [r \in Rows |-> p.eff[k][r + 1]] = Eff(k)'

Act(e) == CASE e.op = "insert"   -> Insert(e.a, e.view)
            [] e.op = "delete"   -> DeleteChannel(e.a, e.view)
            [] e.op = "set"      -> Set(e.a, e.x, e.view)
            [] e.op = "train"    -> MakeTrainable(e.a, e.x, e.view)
            [] e.op = "deltrain" -> DeleteTrainables(e.view)
            [] e.op = "write"    -> WriteTrainables
            [] e.op = "group"    -> AddToGroup(e.a, e.view)
            [] e.op = "record"   -> Record(e.a, e.view)
            [] e.op = "delrec"   -> DeleteRecordings(e.view)
            [] e.op = "stim"     -> Stimulate(e.view)
            [] e.op = "clamp"    -> Clamp(e.a, e.view)
            [] e.op = "delstim"  -> DeleteStimuli(e.view)
            [] e.op = "delclamp" -> DeleteClamps(e.a, e.view)

Step == /\ l <= Len(Tr[tid])
        /\ LET e == Tr[tid][l] IN
             IF e.ok = 1
             THEN Act(e) /\ PostMatches(e.post) /\ EffMatches(e.post)
             ELSE (~ ENABLED Act(e)) /\ UNCHANGED mvars /\ has = LHas(e.post) /\ col = LCol(e.post) /\ trains = LTrains(e.post)
        /\ l' = l + 1 /\ UNCHANGED tid
TraceInit == MInit /\ tid \in 1..Len(Tr) /\ l = 1
TraceSpec == TraceInit /\ [][Step]_tvars
\* one line per matched position; the harness takes the maximum per trace
Progress == PrintT(<<"AT", tid, l>>)
=============================================================================

SPECIFICATION Spec
CONSTANTS
  NRows = 6
  K <- KMC
  T = 2
  PreSites = {0, 3, 5}
  PostSites = {1, 4, 5}
  MaxEdges = 3
  MaxEdits = 2
  MaxTrainables = 2
  SAMPLE = 4000
  SEEDK = 0
INVARIANT CreationOrderIrrelevant
INVARIANT ZeroWeightIsIsolation
INVARIANT OnlyPostCompartmentsMove
INVARIANT RefsExist
INVARIANT TrainablesReachTheirSynapses
INVARIANT UntrainedSynapsesKeepTheirTableWeight
CONSTRAINT Emit
CHECK_DEADLOCK FALSE

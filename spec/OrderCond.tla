------------------------------ MODULE OrderCond ------------------------------
(***************************************************************************)
(* C15: the order conditions of the discretisation as exact identities over *)
(* the field (TLC evaluates them over Z_P at pseudo-random parameters).     *)
(* Together with stability (RowSumIdentity of MC_Hines: an M-matrix) they   *)
(* are the hypotheses of the Lax convergence theorem, which is the trusted  *)
(* base; the limit statement itself is witnessed on the real code by a      *)
(* deterministic refinement ladder (harness/convergence_check.py).          *)
(*                                                                         *)
(* Space: on a uniform sealed cable (compartment length l, radius r, axial  *)
(* resistivity ra) with compartment centres x_i = (2i-1) l / 2 the axial    *)
(* term of compartment i applied to ANY quadratic V(x) = a + b x + c x^2    *)
(* equals the exact divergence of the axial current over the compartment,   *)
(*   1e7 * (pi r^2 / ra) * ( V'(x_i + l/2) - V'(x_i - l/2) )  (interior)    *)
(* and the same with V' = 0 replaced at a sealed end - hence second order   *)
(* in l.  Time: backward Euler reproduces every solution that is linear in  *)
(* t, Crank-Nicolson (as coded: 2 * implicit half step - v) every solution  *)
(* that is quadratic in t, of  cm v' = -g v + s(t).                         *)
(***************************************************************************)
EXTENDS Field

CONSTANT NMAX
VARIABLE n
Init == n \in 2..NMAX
Next == UNCHANGED n

l == Rnd(11)  r == Rnd(12)  ra == Rnd(13)  PI == Rnd(14)
a == Rnd(21)  b == Rnd(22)  c == Rnd(23)
E7 == K(10000000)
X(i) == Mul(Mul(K(2 * i - 1), l), Half)                     \* centre of compartment i
V(x) == Add(a, Add(Mul(b, x), Mul(c, Sq(x))))
dV(x) == Add(b, Mul(Mul(2, c), x))
Rh == Div(Mul(ra, l), Mul(Mul(2, PI), Sq(r)))               \* half-compartment axial resistance (Cable.tla)
G == Div(E7, Add(Rh, Rh))
Axial(i) == Add(IF i > 1 THEN Mul(G, Sub(V(X(i - 1)), V(X(i)))) ELSE 0,
                IF i < n THEN Mul(G, Sub(V(X(i + 1)), V(X(i)))) ELSE 0)
Kappa == Mul(E7, Div(Mul(PI, Sq(r)), ra))                   \* 1e7 * pi r^2 / ra
FluxDiv(i) == Sub(IF i < n THEN Mul(Kappa, dV(Add(X(i), Mul(l, Half)))) ELSE 0,       \* sealed end: no flux
                  IF i > 1 THEN Mul(Kappa, dV(Sub(X(i), Mul(l, Half)))) ELSE 0)
SecondOrderInSpace == \A i \in 1..n : Axial(i) = FluxDiv(i)

\* time: cm v' = -g v + s(t), exact solution u(t) = al + be t + ga t^2, so s(t) = cm u'(t) + g u(t)
cm == Rnd(31)  g == Rnd(32)  h == Rnd(33)  t0 == Rnd(34)
al == Rnd(41)  be == Rnd(42)  ga == Rnd(43)
U(t, q) == Add(al, Add(Mul(be, t), Mul(q, Sq(t))))
dU(t, q) == Add(be, Mul(Mul(2, q), t))
S(t, q) == Add(Mul(cm, dU(t, q)), Mul(g, U(t, q)))
\* backward Euler step with the source taken at the new time point
Bwd(v, hh, src) == Div(Add(Mul(cm, v), Mul(hh, src)), Add(cm, Mul(hh, g)))
BwdEulerExactOnLinear == Bwd(U(t0, 0), h, S(Add(t0, h), 0)) = U(Add(t0, h), 0)
\* Crank-Nicolson as coded: implicit half step with the mean source, then 2 * half - v
CN(v, src) == Sub(Mul(2, Bwd(v, Mul(h, Half), src)), v)
CrankNicolsonExactOnQuadratic ==
  CN(U(t0, ga), Mul(Half, Add(S(t0, ga), S(Add(t0, h), ga)))) = U(Add(t0, h), ga)
\* and backward Euler is NOT exact on quadratics (the identity is not vacuous)
BwdEulerNotSecondOrder == Bwd(U(t0, ga), h, S(Add(t0, h), ga)) # U(Add(t0, h), ga)
=============================================================================

------------------------------- MODULE MC_Net -------------------------------
(***************************************************************************)
(* Harness for NetSim.tla: a network of three cells with 3, 2 and 1         *)
(* compartments (rows 0-2, 3-4, 5); up to MaxEdges connect() calls over a   *)
(* catalogue of pre / post sites (autapse and fan-in included, two synapse  *)
(* types interleaved in creation order), then up to MaxEdits editing calls, *)
(* then integrate.                                                          *)
(***************************************************************************)
EXTENDS NetSim, Json
KMC == <<2, 4, 6, 8, 10, 12>>
CONSTANTS SAMPLE, SEEDK      \* one of SAMPLE observed states (by a deterministic hash of the state) is emitted for replay
VARIABLE hist                \* the calls made so far (the harness replays them through the public API)
H(rec) == hist' = Append(hist, rec)
AConnect(pre, post, ty) == Connect(pre, post, ty) /\ H([op |-> "connect", pre |-> pre, post |-> post, ty |-> ty])
ASetW(x, ev) == SetW(x, ev) /\ H([op |-> "setw", x |-> x, ev |-> ev])
ASetS(x, ev) == SetS(x, ev) /\ H([op |-> "sets", x |-> x, ev |-> ev])
ARecordE(what, ev) == RecordE(what, ev) /\ H([op |-> "record", what |-> what, ev |-> ev])
ADelRecE(ev) == DelRecE(ev) /\ H([op |-> "delrec", ev |-> ev])
ATrainW(x, ev, each) == TrainW(x, ev, each) /\ H([op |-> "trainw", x |-> x, ev |-> ev, each |-> each])
ADelTrainE(ev) == DelTrainE(ev) /\ H([op |-> "deltrain", ev |-> ev])
AClampE(ev) == ClampE(ev) /\ H([op |-> "clamp", ev |-> ev])
AStim(row) == Stim(row) /\ H([op |-> "stim", row |-> row])
AIntegrate == Integrate /\ UNCHANGED hist
Next ==
  \/ \E pre \in PreSites, post \in PostSites, ty \in Types : AConnect(pre, post, ty)
  \/ \E x \in {0, 2}, ev \in EdgeViews \cup RowViews : ASetW(x, ev)
  \/ \E ev \in EdgeViews \cup RowViews : ASetS(3, ev)
  \/ \E what \in {"s", "i"}, ev \in EdgeViews : ARecordE(what, ev)
  \/ \E ev \in EdgeViews : AClampE(ev)
  \/ \E ev \in DelRecViews : ADelRecE(ev)
  \/ \E ev \in EdgeViews, each \in BOOLEAN : ATrainW(3, ev, each)
  \/ \E ev \in DelRecViews : ADelTrainE(ev)
  \/ \E row \in {1, 5} : AStim(row)
  \/ AIntegrate
NetInit == Init /\ hist = <<>>
OpCode(h) == CASE h.op = "connect" -> 1 + h.pre * 7 + h.post * 3 + (IF h.ty = "P" THEN 0 ELSE 1)
               [] h.op = "setw" -> 41 + h.x * 5 + h.ev.k + (IF h.ev.kind = "type" THEN 0 ELSE IF h.ev.kind = "rows" THEN 23 ELSE 2) + (IF h.ev.ty = "P" THEN 0 ELSE 11)
               [] h.op = "sets" -> 73 + h.ev.k + (IF h.ev.kind = "type" THEN 0 ELSE IF h.ev.kind = "rows" THEN 19 ELSE 2) + (IF h.ev.ty = "P" THEN 0 ELSE 11)
               [] h.op = "record" -> 101 + (IF h.what = "s" THEN 0 ELSE 17) + h.ev.k + (IF h.ev.kind = "type" THEN 0 ELSE 2) + (IF h.ev.ty = "P" THEN 0 ELSE 11)
               [] h.op = "delrec" -> 201 + h.ev.k * 3 + (IF h.ev.kind = "type" THEN 0 ELSE IF h.ev.kind = "rows" THEN 29 ELSE 2) + (IF h.ev.ty = "P" THEN 0 ELSE 11)
               [] h.op = "trainw" -> 251 + h.ev.k * 3 + (IF h.ev.kind = "type" THEN 0 ELSE 2) + (IF h.ev.ty = "P" THEN 0 ELSE 11) + (IF h.each THEN 5 ELSE 0)
               [] h.op = "deltrain" -> 291 + h.ev.k * 3 + (IF h.ev.kind = "type" THEN 0 ELSE IF h.ev.kind = "rows" THEN 29 ELSE 2) + (IF h.ev.ty = "P" THEN 0 ELSE 11)
               [] h.op = "clamp" -> 151 + h.ev.k + (IF h.ev.kind = "type" THEN 0 ELSE 2) + (IF h.ev.ty = "P" THEN 0 ELSE 11)
               [] h.op = "stim" -> 181 + h.row
RECURSIVE HashSeq(_, _)
HashSeq(q, acc) == IF q = <<>> THEN acc ELSE HashSeq(Tail(q), (acc * 211 + OpCode(Head(q)) * 1009 + 7) % 1000003)
Hash == HashSeq(hist, 17) % SAMPLE
Emit == (obs # <<>> /\ Hash = SEEDK % SAMPLE) =>
          PrintT(<<"NETSTATE", ToJson([hist |-> hist, edges |-> edges, w |-> w, s0 |-> s0, recs |-> recs, stim |-> stim, ecl |-> ecl, obs |-> obs, effw |-> EffW,
                                       tr |-> [i \in DOMAIN tr |-> [groups |-> {SeqOfSet(G) : G \in tr[i].groups}, val |-> tr[i].val]]])>>)
Spec == NetInit /\ [][Next]_<<nvars, hist>>
ASSUME PrintT(<<"MODEL", ToJson([nrows |-> NRows, K |-> K, T |-> T, rowsets |-> [i \in 1..Len(RowSets) |-> SeqOfSet(RowSets[i])]])>>)
=============================================================================

------------------------------ MODULE Kinetics ------------------------------
(***************************************************************************)
(* WHAT the built-in mechanisms are: the published rate functions, steady   *)
(* states, time constants, current equations, default parameters and the    *)
(* rename rule, as expression trees with exact rational constants.          *)
(* Sources and how far each entry could be checked offline (`verified`):    *)
(*   HH      Hodgkin & Huxley 1952 at 6.3 C exactly as NEURON's hh.mod      *)
(*           (present offline: neuron/.data/share/modfile/hh.mod)           *)
(*           -> "source_offline"                                            *)
(*   Na, K, Km, CaL, CaT, Leak   Pospischil et al. 2008  -> "recollection"  *)
(*   IonotropicSynapse           Abbott & Marder 1998    -> "recollection"  *)
(* A disagreement between the code and a `recollection` entry is reported   *)
(* as UNDECIDED, never as a violation; CaT's tau_u is additionally marked   *)
(* `contested` (three different parenthesisations are in circulation).      *)
(*                                                                         *)
(* Trees: [c |-> <<n, d>>] constant, [v |-> "v"] the voltage, [p |-> name]  *)
(* a parameter, [op |-> .., a |-> .., b |-> ..].  "xexpm1"(x) denotes        *)
(* x / (exp(x) - 1) continued by its limit 1 at x = 0 (NEURON's vtrap).      *)
(***************************************************************************)
EXTENDS Integers, Sequences, TLC, Json

C(n, d) == [c |-> <<n, d>>]
I(n) == C(n, 1)
V == [v |-> "v"]
Par(name) == [p |-> name]
Add(a, b) == [op |-> "add", a |-> a, b |-> b]
Sub(a, b) == [op |-> "sub", a |-> a, b |-> b]
Mul(a, b) == [op |-> "mul", a |-> a, b |-> b]
Div(a, b) == [op |-> "div", a |-> a, b |-> b]
Neg(a) == [op |-> "neg", a |-> a]
Exp(a) == [op |-> "exp", a |-> a]
XExpm1(a) == [op |-> "xexpm1", a |-> a]
Pow(a, n) == [op |-> "pow", a |-> a, b |-> I(n)]
Sigm(a) == Div(I(1), Add(I(1), Exp(Neg(a))))                  \* 1 / (1 + exp(-a))

(* ------------------------------ Hodgkin-Huxley --------------------------- *)
\* vtrap(x, y) = x / (exp(x/y) - 1) = y * xexpm1(x / y)
Vtrap(x, y) == Mul(y, XExpm1(Div(x, y)))
HH_alpha_m == Mul(C(1, 10), Vtrap(Neg(Add(V, I(40))), I(10)))
HH_beta_m  == Mul(I(4), Exp(Div(Neg(Add(V, I(65))), I(18))))
HH_alpha_h == Mul(C(7, 100), Exp(Div(Neg(Add(V, I(65))), I(20))))
HH_beta_h  == Div(I(1), Add(Exp(Div(Neg(Add(V, I(35))), I(10))), I(1)))
HH_alpha_n == Mul(C(1, 100), Vtrap(Neg(Add(V, I(55))), I(10)))
HH_beta_n  == Mul(C(125, 1000), Exp(Div(Neg(Add(V, I(65))), I(80))))

(* ------------------------------ Pospischil 2008 -------------------------- *)
U(off) == Sub(Sub(V, Par("vt")), I(off))                      \* v - VT - off
\* -a*u / (exp(-u/k) - 1) = a*k * xexpm1(-u/k)
Na_alpha_m == Mul(Mul(C(32, 100), I(4)), XExpm1(Div(Neg(U(13)), I(4))))
\* a*u / (exp(u/k) - 1) = a*k * xexpm1(u/k)
Na_beta_m  == Mul(Mul(C(28, 100), I(5)), XExpm1(Div(U(40), I(5))))
Na_alpha_h == Mul(C(128, 1000), Exp(Div(Neg(U(17)), I(18))))
Na_beta_h  == Div(I(4), Add(I(1), Exp(Div(Neg(U(40)), I(5)))))
K_alpha_n  == Mul(Mul(C(32, 1000), I(5)), XExpm1(Div(Neg(U(15)), I(5))))
K_beta_n   == Mul(C(1, 2), Exp(Div(Neg(U(10)), I(40))))
Km_p_inf   == Sigm(Div(Add(V, I(35)), I(10)))
Km_tau_p   == Div(Par("taumax"), Add(Mul(C(33, 10), Exp(Div(Add(V, I(35)), I(20)))), Exp(Div(Neg(Add(V, I(35))), I(20)))))
W(off) == Sub(Neg(V), I(off))                                 \* -v - off
CaL_alpha_q == Mul(Mul(C(55, 1000), C(38, 10)), XExpm1(Div(W(27), C(38, 10))))
CaL_beta_q  == Mul(C(94, 100), Exp(Div(W(75), I(17))))
CaL_alpha_r == Mul(C(457, 1000000), Exp(Div(W(13), I(50))))
CaL_beta_r  == Div(C(65, 10000), Add(Exp(Div(W(15), I(28))), I(1)))
X(offn, offd) == Add(Add(V, Par("vx")), C(offn, offd))        \* v + Vx + off
CaT_s_inf  == Sigm(Div(X(57, 1), C(62, 10)))
CaT_u_inf  == Div(I(1), Add(I(1), Exp(Div(X(81, 1), I(4)))))
CaT_tau_u  == Add(C(308, 10), Div(Add(C(2114, 10), Exp(Div(X(1132, 10), I(5)))),
                                   Mul(C(37, 10), Add(I(1), Exp(Div(X(84, 1), C(32, 10)))))))
(* ------------------------------ Abbott & Marder 1998 --------------------- *)
Syn_s_inf == Div(I(1), Add(I(1), Exp(Div(Sub(I(0 - 35), V), I(10)))))       \* V is the presynaptic voltage
Syn_tau   == Div(Sub(I(1), Syn_s_inf), Par("k_minus"))

(* currents: conductance density expression times driving force; S is the gate state named *)
St(name) == [p |-> name]
Gates ==
  [ HH_m  |-> [kind |-> "ab", a |-> HH_alpha_m, b |-> HH_beta_m, verified |-> "source_offline", fn |-> "HH.m_gate"],
    HH_h  |-> [kind |-> "ab", a |-> HH_alpha_h, b |-> HH_beta_h, verified |-> "source_offline", fn |-> "HH.h_gate"],
    HH_n  |-> [kind |-> "ab", a |-> HH_alpha_n, b |-> HH_beta_n, verified |-> "source_offline", fn |-> "HH.n_gate"],
    Na_m  |-> [kind |-> "ab", a |-> Na_alpha_m, b |-> Na_beta_m, verified |-> "recollection", fn |-> "Na.m_gate"],
    Na_h  |-> [kind |-> "ab", a |-> Na_alpha_h, b |-> Na_beta_h, verified |-> "recollection", fn |-> "Na.h_gate"],
    K_n   |-> [kind |-> "ab", a |-> K_alpha_n, b |-> K_beta_n, verified |-> "recollection", fn |-> "K.n_gate"],
    Km_p  |-> [kind |-> "inf_tau", a |-> Km_p_inf, b |-> Km_tau_p, verified |-> "recollection", fn |-> "Km.p_gate"],
    CaL_q |-> [kind |-> "ab", a |-> CaL_alpha_q, b |-> CaL_beta_q, verified |-> "recollection", fn |-> "CaL.q_gate"],
    CaL_r |-> [kind |-> "ab", a |-> CaL_alpha_r, b |-> CaL_beta_r, verified |-> "recollection", fn |-> "CaL.r_gate"],
    CaT_u |-> [kind |-> "inf_tau", a |-> CaT_u_inf, b |-> CaT_tau_u, verified |-> "contested", fn |-> "CaT.u_gate"],
    IonotropicSynapse_s |-> [kind |-> "inf_tau", a |-> Syn_s_inf, b |-> Syn_tau, verified |-> "recollection", fn |-> "IonotropicSynapse"] ]

Drive(e) == Sub(V, Par(e))
CaT_s_inf_cur == Sigm(Div(Add(Add(V, Par("CaT_vx")), I(57)), C(62, 10)))
Currents ==
  [ HH   |-> [expr |-> Add(Add(Mul(Mul(Par("HH_gNa"), Mul(Pow(St("HH_m"), 3), St("HH_h"))), Drive("HH_eNa")),
                               Mul(Mul(Par("HH_gK"), Pow(St("HH_n"), 4)), Drive("HH_eK"))),
                           Mul(Par("HH_gLeak"), Drive("HH_eLeak"))), verified |-> "source_offline"],
    Leak |-> [expr |-> Mul(Par("Leak_gLeak"), Drive("Leak_eLeak")), verified |-> "recollection"],
    Na   |-> [expr |-> Mul(Mul(Par("Na_gNa"), Mul(Pow(St("Na_m"), 3), St("Na_h"))), Drive("eNa")), verified |-> "recollection"],
    K    |-> [expr |-> Mul(Mul(Par("K_gK"), Pow(St("K_n"), 4)), Drive("eK")), verified |-> "recollection"],
    Km   |-> [expr |-> Mul(Mul(Par("Km_gKm"), St("Km_p")), Drive("eK")), verified |-> "recollection"],
    CaL  |-> [expr |-> Mul(Mul(Par("CaL_gCaL"), Mul(Pow(St("CaL_q"), 2), St("CaL_r"))), Drive("eCa")), verified |-> "recollection"],
    CaT  |-> [expr |-> Mul(Mul(Par("CaT_gCaT"), Mul(Pow(CaT_s_inf_cur, 2), St("CaT_u"))), Drive("eCa")),
              verified |-> "recollection"] ]

\* default parameters (documented units: S/cm^2, mV, ms) and initial states
Defaults ==
  [ HH   |-> [HH_gNa |-> C(12, 100), HH_gK |-> C(36, 1000), HH_gLeak |-> C(3, 10000), HH_eNa |-> I(50), HH_eK |-> I(0 - 77),
              HH_eLeak |-> C(0 - 543, 10)],
    Leak |-> [Leak_gLeak |-> C(1, 10000), Leak_eLeak |-> I(0 - 70)],
    Na   |-> [Na_gNa |-> C(50, 1000), eNa |-> I(50), vt |-> I(0 - 60)],
    K    |-> [K_gK |-> C(5, 1000), eK |-> I(0 - 90), vt |-> I(0 - 60)],
    Km   |-> [Km_gKm |-> C(4, 1000000), Km_taumax |-> I(4000), eK |-> I(0 - 90)],
    CaL  |-> [CaL_gCaL |-> C(1, 10000), eCa |-> I(120)],
    CaT  |-> [CaT_gCaT |-> C(4, 100000), CaT_vx |-> I(2), eCa |-> I(120)] ]

\* change_name(new): every key that starts with the old name gets the new prefix; shared keys are untouched
SharedKeys == {"vt", "eNa", "eK", "eCa"}

ASSUME PrintT(<<"KINETICS", ToJson([gates |-> Gates, currents |-> Currents, defaults |-> Defaults, shared |-> SharedKeys])>>)
VARIABLE x
Init == x = 0
Next == UNCHANGED x
\* well-formedness of the table itself
WellFormed == /\ \A g \in DOMAIN Gates : Gates[g].kind \in {"ab", "inf_tau"}
              /\ \A g \in DOMAIN Gates : Gates[g].verified \in {"source_offline", "recollection", "contested"}
              /\ DOMAIN Defaults = DOMAIN Currents
=============================================================================

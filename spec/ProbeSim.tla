------------------------------ MODULE ProbeSim ------------------------------
(***************************************************************************)
(* What integrate() must return for a module in the abstract state of       *)
(* JaxleyModule.tla, as INTEGERS computed from the tables alone.            *)
(*                                                                         *)
(* The harness builds the real module so that its dynamics are integer      *)
(* exact: every compartment is an isolated capacitor (axial resistivity     *)
(* 1e30), with length dt*1e5/(2 pi K_r cm) so that a point current of I nA   *)
(* changes v by exactly I*K_r/radius mV per step; probe channel A carries   *)
(* the constant current density -(A_g + 100 sh)*u and a state A_s that      *)
(* counts steps, probe channel B carries -(10 B_g + 100 sh)*u, with u such   *)
(* that a density of u changes v by 1 mV per step.  Input j is the time     *)
(* series StimAmp(j, k) / ClampVal(key, j, k), k = 1..T, so that a          *)
(* misrouted, mistimed, dropped or doubled contribution changes an integer. *)
(* Order inside one step as coded in Module.step: stimulus of sample k,     *)
(* channel state update (old voltage), channel currents, clamps of channel  *)
(* states, voltage update, voltage clamp.                                   *)
(***************************************************************************)
EXTENDS JaxleyModule

CONSTANTS K,      \* K[r + 1]: mV per nA and step of row r at radius 1 (even, pairwise different)
          T       \* number of samples of every input = number of simulated steps

StimAmp(j, k) == 10 * j + k
ClampVal(key, j, k) == (IF key = "v" THEN 1000 ELSE 50) * j + k
RECURSIVE SumSeq(_)
SumSeq(s) == IF s = <<>> THEN 0 ELSE Head(s) + SumSeq(Tail(s))
\* several stimuli on one compartment add
StimAt(k, r) == SumSeq([i \in DOMAIN ext["i"] |-> IF ext["i"][i][1] = r THEN StimAmp(ext["i"][i][2], k) ELSE 0])
\* the last clamp listed for a row wins (scatter .set in table order)
RECURSIVE ApplyClamps(_, _, _, _)
ApplyClamps(key, k, vec, i) ==
  IF i > Len(ext[key]) THEN vec
  ELSE ApplyClamps(key, k, [vec EXCEPT ![ext[key][i][1]] = ClampVal(key, ext[key][i][2], k)], i + 1)
ParamOr0(P, k, r) == IF P[k][r] = NaN THEN 0 ELSE P[k][r]
DriveA(P, r) == IF "A" \in has[r] THEN ParamOr0(P, "A_g", r) + 100 * ParamOr0(P, "sh", r) ELSE 0
DriveB(P, r) == IF "B" \in has[r] THEN 10 * ParamOr0(P, "B_g", r) + 100 * ParamOr0(P, "sh", r) ELSE 0
EffAll == [k \in Keys |-> Eff(k)]
SimInit == LET P == EffAll IN [v |-> P["v"], as |-> P["A_s"], ia |-> [r \in Rows |-> DriveA(P, r)]]
SimStep(S, k) ==
  LET P   == EffAll
      as1 == [r \in Rows |-> IF "A" \in has[r] THEN S.as[r] + 1 ELSE S.as[r]]
      as2 == ApplyClamps("A_s", k, as1, 1)
      v1  == [r \in Rows |-> S.v[r] + DriveA(P, r) + DriveB(P, r) + (StimAt(k, r) * K[r + 1]) \div P["radius"][r]]
      v2  == ApplyClamps("v", k, v1, 1)
  IN [v |-> v2, as |-> as2, ia |-> [r \in Rows |-> DriveA(P, r)]]
RECURSIVE SimRun(_, _)
SimRun(S, k) == IF k > T THEN <<S>> ELSE <<S>> \o SimRun(SimStep(S, k), k + 1)
Read(S, p) == CASE p[2] = "v" -> S.v[p[1]] [] p[2] = "A_s" -> S.as[p[1]] [] p[2] = "i_A" -> S.ia[p[1]]
\* one row per recording in the order record() was called, column 0 = initial state
Obs == LET run == SimRun(SimInit, 1) IN [i \in DOMAIN recs |-> [c \in 1..(T + 1) |-> Read(run[c], recs[i])]]
\* integrate() is only accepted with at least one recording; the radius must divide the charge
CanIntegrate == recs # <<>> /\ \A r \in Rows : Eff("radius")[r] \in {1, 2}
=============================================================================

------------------------------ MODULE MC_Module ------------------------------
(***************************************************************************)
(* Model-checking harness for JaxleyModule.tla + ProbeSim.tla on the cell   *)
(* with branches of <<2, 1, 3>> compartments (rows 0..5): the complete      *)
(* alphabet of editing calls x view catalogue x values, to a bounded depth. *)
(* Integrate is an observing action: it changes no table and records what   *)
(* the simulation must return (obs).                                        *)
(***************************************************************************)
EXTENDS ProbeSim, Json

CONSTANT ACTS    \* classes of editing calls in the alphabet of this configuration
VARIABLES obs, eff, jac
allvars == <<mvars, obs, eff, jac>>

BranchOfRowMC == <<0, 0, 1, 2, 2, 2>>
ViewsMC == [ all  |-> [rows |-> 0..5,      by |-> "one"],
             b0   |-> [rows |-> {0, 1},    by |-> "branch"],
             b01  |-> [rows |-> {0, 1, 2}, by |-> "branch"],
             b12  |-> [rows |-> {2, 3, 4, 5}, by |-> "branch"],
             c0   |-> [rows |-> {0, 2, 3}, by |-> "comp"],
             mid  |-> [rows |-> {1, 2, 3}, by |-> "comp"],
             last |-> [rows |-> {5},       by |-> "comp"] ]
KMC == <<2, 4, 6, 8, 10, 12>>

\* every editing action keeps the observation empty and refreshes the derived column `eff`
\* (what get_all_parameters / get_all_states must return), which the replay compares as well
Jac == [i \in DOMAIN trains |-> [G \in trains[i].groups |-> DEff(i, G)]]
Aux == obs = <<>> /\ UNCHANGED obs /\ eff' = [k \in Keys |-> Eff(k)'] /\ jac' = Jac'
Integrate ==
  /\ obs = <<>> /\ CanIntegrate
  /\ obs' = Obs
  /\ UNCHANGED <<mvars, eff, jac>>
\* named wrappers: TLC labels the edges of the dumped state graph with these names and arguments
AInsert(ch, vn) == "insert" \in ACTS /\ Insert(ch, vn) /\ Aux
ADeleteChannel(ch, vn) == "delete" \in ACTS /\ DeleteChannel(ch, vn) /\ Aux
ASet(k, x, vn) == "set" \in ACTS /\ Set(k, x, vn) /\ Aux
AMakeTrainable(k, x, vn) == "train" \in ACTS /\ MakeTrainable(k, x, vn) /\ Aux
ADeleteTrainables(vn) == "deltrain" \in ACTS /\ DeleteTrainables(vn) /\ Aux
AWriteTrainables == "write" \in ACTS /\ WriteTrainables /\ Aux
AAddToGroup(g, vn) == "group" \in ACTS /\ AddToGroup(g, vn) /\ Aux
ARecord(s, vn) == ("record" \in ACTS \/ ("record1" \in ACTS /\ s = "v" /\ vn = "all")) /\ Record(s, vn) /\ Aux
ADeleteRecordings(vn) == "delrec" \in ACTS /\ DeleteRecordings(vn) /\ Aux
AStimulate(vn) == "input" \in ACTS /\ Stimulate(vn) /\ Aux
AClamp(s, vn) == "input" \in ACTS /\ Clamp(s, vn) /\ Aux
ADeleteStimuli(vn) == "delinput" \in ACTS /\ DeleteStimuli(vn) /\ Aux
ADeleteClamps(s, vn) == "delinput" \in ACTS /\ DeleteClamps(s, vn) /\ Aux
Next ==
  \/ \E ch \in Chans, vn \in ViewNames : AInsert(ch, vn)
  \/ \E ch \in Chans, vn \in ViewNames : ADeleteChannel(ch, vn)
  \/ \E k \in Keys, x \in {1, 2}, vn \in {"all", "b01", "c0", "last"} : ASet(k, x, vn)
  \/ \E k \in Keys, vn \in {"all", "b0", "b01", "b12", "c0"} : AMakeTrainable(k, 2, vn)
  \/ \E vn \in {"all", "b0", "c0", "mid"} : ADeleteTrainables(vn)
  \/ \E g \in GroupNames, vn \in {"b0", "c0", "last"} : AAddToGroup(g, vn)
  \/ \E s \in RecStates, vn \in {"all", "b01", "mid", "last"} : ARecord(s, vn)
  \/ \E vn \in {"all", "b0", "c0"} : ADeleteRecordings(vn)
  \/ \E vn \in {"b0", "c0", "mid", "last"} : AStimulate(vn)
  \/ \E s \in {"v", "A_s"}, vn \in {"b0", "mid", "last"} : AClamp(s, vn)
  \/ \E vn \in {"all", "c0"} : ADeleteStimuli(vn)
  \/ \E s \in {"v", "A_s"}, vn \in {"all", "c0"} : ADeleteClamps(s, vn)
  \/ AWriteTrainables
  \/ Integrate
Init == MInit /\ obs = <<>> /\ eff = [k \in Keys |-> Eff(k)] /\ jac = <<>>
Spec == Init /\ [][Next]_allvars
StateView == <<has, col, colset, reg, curs, groups, recs, ext, nin, trains, obs, eff, jac>>     \* depth hidden

ASSUME PrintT(<<"MODEL", ToJson([branch_of_row |-> BranchOfRow, views |-> Views, K |-> K, T |-> T])>>)
\* C10: after write_trainables the tables alone (without the trainables) give the simulated values
WriteStoresSimulated == [][AWriteTrainables => \A k \in Keys : col'[k] = eff'[k] \/ ~ \E i \in DOMAIN trains : trains[i].key = k]_allvars
\* C05: every row a trainable can influence belongs to one of its groups, and groups of one trainable are disjoint
GradIsTransposeOfScatter ==
  \A i \in DOMAIN trains : /\ \A G \in trains[i].groups : jac[i][G] \subseteq G
                            /\ \A G1, G2 \in trains[i].groups : G1 # G2 => G1 \cap G2 = {}
IntegrateIsPure == [][obs' # obs => UNCHANGED mvars]_allvars
=============================================================================

------------------------------ MODULE ExprAbs ------------------------------
(***************************************************************************)
(* An abstract interpreter, executed by TLC, for the straight-line scalar   *)
(* programs that JAX actually runs for a rate function, a gate update or a  *)
(* parameter transform (jax.make_jaxpr, flattened to SSA by the harness;    *)
(* constants as exact rationals) and for the PUBLISHED expressions of       *)
(* Kinetics.tla linearised the same way.                                    *)
(*                                                                         *)
(* Domain: affine forms a*v + b of the one input v are tracked exactly;     *)
(* everything else carries a sign / finiteness value                        *)
(*   neg | zero | pos | unk | inf | nan                                     *)
(* plus, for exp nodes, the sign of the argument (so that exp(u) - 1 gets   *)
(* the sign of u).  The partition of the input line is DERIVED from the     *)
(* program: every root of an affine node and every breakpoint of a min /    *)
(* max between affine forms is a point cell, the open intervals between     *)
(* consecutive points are interval cells; on a cell every affine form has a *)
(* constant sign, so the transfer functions are exact there (over the       *)
(* reals).  `unk` is never a verdict: the harness falls back to concrete    *)
(* evaluation on that cell.                                                 *)
(***************************************************************************)
EXTENDS Integers, Sequences, FiniteSets, TLC, Json, IOUtils, FiniteSetsExt, SequencesExt

Progs == JsonDeserialize(IOEnv.PROGS_FILE)       \* [name |-> [nodes, outs, lo, hi]]

(* ---------- exact rationals <<n, d>>, d > 0 (numbers in the programs are small) ---------- *)
RECURSIVE Gcd(_, _)
Gcd(a, b) == IF b = 0 THEN a ELSE Gcd(b, a % b)
Abs(x) == IF x < 0 THEN -x ELSE x
Norm(q) == LET g == Gcd(Abs(q[1]), Abs(q[2]))
               s == IF q[2] < 0 THEN -1 ELSE 1
           IN IF q[1] = 0 THEN <<0, 1>> ELSE <<s * (q[1] \div g), s * (q[2] \div g)>>
RAdd(p, q) == Norm(<<p[1] * q[2] + q[1] * p[2], p[2] * q[2]>>)
RNeg(p) == <<-p[1], p[2]>>
RSub(p, q) == RAdd(p, RNeg(q))
RMul(p, q) == Norm(<<p[1] * q[1], p[2] * q[2]>>)
RDiv(p, q) == Norm(<<p[1] * q[2], p[2] * q[1]>>)       \* q # 0
RSign(p) == IF p[1] < 0 THEN "neg" ELSE IF p[1] = 0 THEN "zero" ELSE "pos"
RLess(p, q) == p[1] * q[2] < q[1] * p[2]
Zero == <<0, 1>>
One == <<1, 1>>

(* ---------- abstract values ---------- *)
Aff(a, b) == [k |-> "aff", a |-> a, b |-> b, s |-> "unk", es |-> "none", cst |-> FALSE]
Sgn(s, es) == [k |-> "sgn", a |-> Zero, b |-> Zero, s |-> s, es |-> es, cst |-> FALSE]
ValAt(x, av) == RAdd(RMul(av.a, x), av.b)                 \* value of an affine form at the sample x
SignAt(x, av) == IF av.k = "aff" THEN RSign(ValAt(x, av))
                 ELSE IF av.k = "abs" THEN (IF RSign(ValAt(x, av)) = "zero" THEN "zero" ELSE "pos") ELSE av.s
Bad(s) == s \in {"nan", "inf"}
\* constant on the whole cell: an affine form of slope 0, or a node all of whose arguments are constant
IsConst(av) == (av.k \in {"aff", "abs"} /\ av.a = Zero) \/ (av.k = "sgn" /\ av.cst)

Flip(s) == CASE s = "neg" -> "pos" [] s = "pos" -> "neg" [] OTHER -> s
MulS(s, t) == IF s = "nan" \/ t = "nan" THEN "nan"
              ELSE IF s = "inf" \/ t = "inf" THEN (IF s = "zero" \/ t = "zero" THEN "nan" ELSE "inf")
              ELSE IF s = "zero" \/ t = "zero" THEN "zero"
              ELSE IF s = "unk" \/ t = "unk" THEN "unk"
              ELSE IF s = t THEN "pos" ELSE "neg"
DivS(s, t) == IF s = "nan" \/ t = "nan" THEN "nan"
              ELSE IF t = "zero" THEN (IF s = "zero" THEN "nan" ELSE IF s = "unk" THEN "unk" ELSE "inf")
              ELSE IF t = "inf" THEN (IF s = "inf" THEN "nan" ELSE "zero")
              ELSE IF s = "inf" THEN "inf"
              ELSE IF t = "unk" THEN "unk"            \* a possible zero divisor is reported as unk, never as a verdict
              ELSE MulS(s, t)
AddS(s, t) == IF s = "nan" \/ t = "nan" THEN "nan"
              ELSE IF s = "inf" \/ t = "inf" THEN "inf"
              ELSE IF s = "zero" THEN t ELSE IF t = "zero" THEN s
              ELSE IF s = t THEN s ELSE "unk"

ArgVal(env, arg) == IF "var" \in DOMAIN arg THEN env[arg.var + 1] ELSE Aff(Zero, <<arg.const[1], arg.const[2]>>)

(* one SSA node evaluated on the cell whose sample point is x *)
EvalNode0(env, node, x) ==
  LET A == ArgVal(env, node.args[1])
      B == IF Len(node.args) > 1 THEN ArgVal(env, node.args[2]) ELSE A
      sA == SignAt(x, A)  sB == SignAt(x, B)
      bothAff == A.k = "aff" /\ B.k = "aff"
  IN CASE node.op = "add" -> IF bothAff THEN Aff(RAdd(A.a, B.a), RAdd(A.b, B.b))
                             \* 1 + exp(u) and exp(u) + c with c >= 0 are positive
                             ELSE Sgn(AddS(sA, sB), "none")
       [] node.op = "sub" -> IF bothAff THEN Aff(RSub(A.a, B.a), RSub(A.b, B.b))
                             \* exp(u) - 1 has the sign of u
                             ELSE IF A.es # "none" /\ B.k = "aff" /\ B.a = Zero /\ B.b = One THEN Sgn(A.es, "none")
                             \* 1 - exp(u) has the opposite sign
                             ELSE IF B.es # "none" /\ A.k = "aff" /\ A.a = Zero /\ A.b = One THEN Sgn(Flip(B.es), "none")
                             ELSE Sgn(AddS(sA, Flip(sB)), "none")
       [] node.op = "neg" -> IF A.k = "aff" THEN Aff(RNeg(A.a), RNeg(A.b)) ELSE Sgn(Flip(sA), "none")
       [] node.op = "mul" -> IF bothAff /\ A.a = Zero THEN Aff(RMul(A.b, B.a), RMul(A.b, B.b))
                             ELSE IF bothAff /\ B.a = Zero THEN Aff(RMul(B.b, A.a), RMul(B.b, A.b))
                             ELSE Sgn(MulS(sA, sB), "none")
       [] node.op = "div" -> IF bothAff /\ B.a = Zero /\ B.b # Zero THEN Aff(RDiv(A.a, B.b), RDiv(A.b, B.b))
                             ELSE Sgn(DivS(sA, sB), "none")
       [] node.op = "min" -> IF bothAff THEN (IF RLess(ValAt(x, A), ValAt(x, B)) THEN A ELSE B)
                             ELSE Sgn(IF sA = sB THEN sA ELSE "unk", "none")
       [] node.op = "max" -> IF bothAff THEN (IF RLess(ValAt(x, A), ValAt(x, B)) THEN B ELSE A)
                             ELSE Sgn(IF sA = sB THEN sA ELSE "unk", "none")
       [] node.op = "exp" -> IF Bad(sA) THEN Sgn(IF sA = "nan" THEN "nan" ELSE "unk", "none") ELSE Sgn("pos", sA)
       [] node.op = "log" -> IF sA = "pos" THEN Sgn("unk", "none")
                             ELSE IF sA = "zero" THEN Sgn("inf", "none")
                             ELSE IF sA = "neg" \/ sA = "nan" THEN Sgn("nan", "none") ELSE Sgn("unk", "none")
       [] node.op = "log1p" -> IF sA \in {"pos", "zero"} THEN Sgn(sA, "none") ELSE Sgn("unk", "none")
       [] node.op = "tanh" -> IF Bad(sA) THEN Sgn("unk", "none") ELSE Sgn(sA, "none")
       [] node.op = "logistic" -> IF sA = "nan" THEN Sgn("nan", "none") ELSE Sgn("pos", "none")
       [] node.op = "abs" -> IF A.k = "aff" THEN [k |-> "abs", a |-> A.a, b |-> A.b, s |-> (IF sA = "zero" THEN "zero" ELSE "pos"), es |-> "none", cst |-> FALSE]
                             ELSE IF Bad(sA) THEN Sgn(sA, "none") ELSE Sgn(IF sA = "zero" THEN "zero" ELSE IF sA = "unk" THEN "unk" ELSE "pos", "none")
       [] node.op = "xexpm1" -> IF Bad(sA) THEN Sgn("unk", "none") ELSE Sgn("pos", "none")    \* x/(exp(x)-1) > 0 everywhere
       [] node.op = "pow2" -> Sgn(MulS(sA, sA), "none")
       [] node.op = "pow3" -> Sgn(MulS(sA, MulS(sA, sA)), "none")
       [] node.op = "pow4" -> Sgn(MulS(MulS(sA, sA), MulS(sA, sA)), "none")
       [] OTHER -> Sgn("unk", "none")            \* select_n, comparisons, expm1, ...: undecided abstractly

EvalNode(env, node, x) ==
  LET r == EvalNode0(env, node, x)
      allc == \A i \in 1..Len(node.args) : IsConst(ArgVal(env, node.args[i]))
  IN IF r.k = "sgn" THEN [r EXCEPT !.cst = allc] ELSE r

RECURSIVE Run(_, _, _, _)
Run(env, nodes, i, x) == IF i > Len(nodes) THEN env
                         ELSE Run(Append(env, EvalNode(env, nodes[i], x)), nodes, i + 1, x)
EnvFor(p, x) == Run(<<Aff(One, Zero)>>, Progs[p].nodes, 1, x)      \* env[1] is the input v

(* partition points: roots of every affine node and breakpoints of min/max between affine forms; min/max *)
(* pick one piece per sample point, so a few samples are used to see every piece                          *)
Lo(p) == <<Progs[p].lo[1], Progs[p].lo[2]>>
Hi(p) == <<Progs[p].hi[1], Progs[p].hi[2]>>
Samples(p) == {Lo(p), Hi(p), RDiv(RAdd(Lo(p), Hi(p)), <<2, 1>>)}
Cmp == {"lt", "gt", "le", "ge", "eq", "ne"}
RootsAt(p, x) ==
  LET env == EnvFor(p, x)
      nodes == Progs[p].nodes
      A(j) == ArgVal(env, nodes[j].args[1])
      B(j) == ArgVal(env, nodes[j].args[2])
  IN { RDiv(RNeg(env[i].b), env[i].a) : i \in {j \in 2..Len(env) : env[j].k \in {"aff", "abs"} /\ env[j].a # Zero} }
     \cup { RDiv(RNeg(RSub(A(i).b, B(i).b)), RSub(A(i).a, B(i).a))
            : i \in {j \in 1..Len(nodes) : nodes[j].op \in {"min", "max"} \cup Cmp
                                            /\ A(j).k = "aff" /\ B(j).k = "aff" /\ A(j).a # B(j).a} }
\* iterate once more with the roots themselves as samples (pieces selected only near a breakpoint)
Roots1(p) == UNION {RootsAt(p, x) : x \in Samples(p)}
RootsOf(p) == Roots1(p) \cup UNION {RootsAt(p, x) : x \in Roots1(p)}
InRange(p, q) == ~RLess(q, Lo(p)) /\ ~RLess(Hi(p), q)
Points(p) == {q \in RootsOf(p) : InRange(p, q)}
Mid(a, b) == RDiv(RAdd(a, b), <<2, 1>>)
Sorted(S) == SortSeq(SetToSeq(S), RLess)
CellsOf(p) == LET s == Sorted(Points(p) \cup {Lo(p), Hi(p)}) IN
              {[pt |-> TRUE, x |-> q, lo |-> q, hi |-> q] : q \in Points(p)} \cup
              {[pt |-> FALSE, x |-> Mid(s[i], s[i + 1]), lo |-> s[i], hi |-> s[i + 1]] : i \in 1..(Len(s) - 1)}

\* thresholds the program itself tests around a root: |a v + b| < c (c constant) switches at distance c/|a| from the
\* root -b/a.  Reported per point cell (the sum root +- delta would overflow TLC's 32-bit rationals); the harness
\* turns every (root, delta) into obligations at root +- delta (and +- ulps) and log-spaced points around them.
RAbs(q) == IF q[1] < 0 THEN RNeg(q) ELSE q
ThreshAt(p, x) ==
  LET env == EnvFor(p, x)
      nodes == Progs[p].nodes
      A(j) == ArgVal(env, nodes[j].args[1])
      B(j) == ArgVal(env, nodes[j].args[2])
  IN { RAbs(RDiv(B(i).b, A(i).a)) : i \in {j \in 1..Len(nodes) : nodes[j].op \in Cmp /\ Len(nodes[j].args) = 2 /\ A(j).k = "abs" /\ A(j).a # Zero
                                             /\ B(j).k = "aff" /\ B(j).a = Zero /\ RDiv(RNeg(A(j).b), A(j).a) = x} }
     \cup { RAbs(RDiv(A(i).b, B(i).a)) : i \in {j \in 1..Len(nodes) : nodes[j].op \in Cmp /\ Len(nodes[j].args) = 2 /\ B(j).k = "abs" /\ B(j).a # Zero
                                             /\ A(j).k = "aff" /\ A(j).a = Zero /\ RDiv(RNeg(B(j).b), B(j).a) = x} }
OutSigns(p, x) == LET env == EnvFor(p, x) IN
                  [i \in 1..Len(Progs[p].outs) |-> SignAt(x, ArgVal(env, Progs[p].outs[i]))]
BadNodes(p, x) == LET env == EnvFor(p, x) IN {i - 1 : i \in {j \in 2..Len(env) : env[j].k = "sgn" /\ Bad(env[j].s)}}
\* an output that is affine with slope 0, or a sign-only constant, is CONSTANT on the cell (saturation)
OutConst(p, x) == LET env == EnvFor(p, x) IN
                  [i \in 1..Len(Progs[p].outs) |-> IsConst(ArgVal(env, Progs[p].outs[i]))]

VARIABLES prog, cell
Init == prog \in DOMAIN Progs /\ cell \in CellsOf(prog)
Next == UNCHANGED <<prog, cell>>
\* one line per (program, cell): the harness turns every cell into concrete obligations
Report == PrintT(<<"CELL", ToJson([prog |-> prog, pt |-> cell.pt, x |-> cell.x, lo |-> cell.lo, hi |-> cell.hi,
                                   signs |-> OutSigns(prog, cell.x), bad |-> BadNodes(prog, cell.x),
                                   const |-> OutConst(prog, cell.x),
                                   thr |-> IF cell.pt THEN ThreshAt(prog, cell.x) ELSE {}])>>)
\* the abstract claim itself (checked as an invariant in the `strict` configuration only; the registered
\* checks use Report and confirm every abstract nan/inf concretely before reporting it)
NoNaN == BadNodes(prog, cell.x) = {}
=============================================================================

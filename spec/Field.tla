------------------------------- MODULE Field -------------------------------
(***************************************************************************)
(* The prime field Z_P as the scalar type of the algebraic specifications.  *)
(* Every rational identity of the voltage step (Cable.tla, Hines.tla,       *)
(* Csc.tla) is stated with these operators only, so the same text can be    *)
(* read over the reals.  TLC evaluates it over Z_P (polynomial identity     *)
(* testing, Schwartz-Zippel): P < 46341 keeps products inside TLC's 32-bit  *)
(* integers.  harness/evaluator.py re-implements exactly these operators    *)
(* for an arbitrary scalar type and is cross-checked against TLC mod P      *)
(* before it is used at float64.                                            *)
(***************************************************************************)
EXTENDS Naturals, Integers, Sequences, FiniteSets, TLC, FiniteSetsExt, Folds

CONSTANTS P,      \* prime modulus, P < 46341
          SEED    \* selects the pseudo-random parameter assignment

K(n)      == n % P                         \* embedding of a natural number
Add(a, b) == (a + b) % P
Sub(a, b) == (((a - b) % P) + P) % P
Mul(a, b) == (a * b) % P
Neg(a)    == (P - a) % P
Sq(a)     == Mul(a, a)

RECURSIVE Pow(_, _)
Pow(a, n) == IF n = 0 THEN 1
             ELSE IF n % 2 = 0 THEN LET h == Pow(a, n \div 2) IN Mul(h, h)
             ELSE Mul(a, Pow(a, n - 1))

InvT   == [a \in 1..(P - 1) |-> Pow(a, P - 2)]     \* Fermat inverse, tabulated once
IsZero(a) == a % P = 0
Inv(a)    == InvT[a]                               \* undefined (TLC error) for 0: callers guard
Div(a, b) == Mul(a, Inv(b))
Half      == Inv(2)

SumF(f, S) == FoldSet(LAMBDA x, acc : Add(f[x], acc), 0, S)
SumOver(S, Op(_)) == FoldSet(LAMBDA x, acc : Add(Op(x), acc), 0, S)

(* Pseudo-random NONZERO field element for an integer key.  The evaluator   *)
(* uses the same formula, so TLC and Python agree on every parameter.       *)
Rnd(k) == LET kk == k % P
          IN ((Mul(kk, 7919) + Mul(SEED % P, 1543) + Mul(Mul(kk, kk), 31) + Mul(Mul(kk, SEED % P), 17)) % (P - 1)) + 1

(* ---------- dual numbers a + b*eps over the field (exact derivatives) ---------- *)
Dual(a, b)  == <<a, b>>
DConst(a)   == <<a, 0>>
DVar(a)     == <<a, 1>>
DAdd(x, y)  == <<Add(x[1], y[1]), Add(x[2], y[2])>>
DSub(x, y)  == <<Sub(x[1], y[1]), Sub(x[2], y[2])>>
DMul(x, y)  == <<Mul(x[1], y[1]), Add(Mul(x[1], y[2]), Mul(x[2], y[1]))>>
DInv(x)     == LET i == Inv(x[1]) IN <<i, Neg(Mul(x[2], Sq(i)))>>
DDiv(x, y)  == DMul(x, DInv(y))
DNeg(x)     == <<Neg(x[1]), Neg(x[2])>>
=============================================================================

SPECIFICATION Spec
CONSTANTS
  N = 5
  MaxCalls = 3
  SAMPLE = 150
  SEEDK = 0
INVARIANT GroupIsTheUnionOfItsCallers
INVARIANT OnlyRowsOfTheCallersAreSet
INVARIANT RecordedExactlyOnce
INVARIANT EveryStimulusOnItsRows
CONSTRAINT Emit
CHECK_DEADLOCK FALSE

#!/bin/bash
# Offline setup: syntax-check every specification with SANY and byte-compile the harness.
set -e
cd "$(dirname "$0")"
mkdir -p evidence replays .work
/venv/bin/python -m compileall -q harness >/dev/null
fail=0
for f in spec/*.tla; do
  [ -e "$f" ] || continue
  if ! (cd spec && tla-sany "$(basename "$f")" >/dev/null 2>&1); then echo "SANY failed: $f"; fail=1; fi
done
exit $fail

"""C03 / C04 / C14: gates, published kinetics, init_states (Mode C of DESIGN.md).

TLC (spec/ExprAbs.tla) abstractly interprets the traced rate programs of the code and the published
expressions of spec/Kinetics.tla, derives the partition of the voltage axis (every removable
singularity and clipping threshold is a point cell) and the per-cell sign/finiteness claims; every
cell then yields concrete obligations that are run on the real functions.

usage: python -m harness.kinetics_check C03|C04|C14
"""
import json
import math
import os
import sys
from fractions import Fraction

from harness import common as C


# gate key -> (module path, class, gate method or None, extra parameter name of the gate function, values)
GATES = {
    "HH_m": ("channels", "HH", "m_gate", None, [None]),
    "HH_h": ("channels", "HH", "h_gate", None, [None]),
    "HH_n": ("channels", "HH", "n_gate", None, [None]),
    "Na_m": ("channels", "Na", "m_gate", "vt", [-60.0, -63.0, -50.5]),
    "Na_h": ("channels", "Na", "h_gate", "vt", [-60.0, -63.0, -50.5]),
    "K_n": ("channels", "K", "n_gate", "vt", [-60.0, -63.0, -50.5]),
    "Km_p": ("channels", "Km", "p_gate", "taumax", [4000.0, 1000.0]),
    "CaL_q": ("channels", "CaL", "q_gate", None, [None]),
    "CaL_r": ("channels", "CaL", "r_gate", None, [None]),
    "CaT_u": ("channels", "CaT", "u_gate", "vx", [2.0, 0.0, -7.5]),
    "IonotropicSynapse_s": ("synapses", "IonotropicSynapse", None, "k_minus", [0.025, 0.1]),
    "TestSynapse_c": ("synapses", "TestSynapse", None, None, [None]),
}
PARAM_KEY = {"vt": "vt", "taumax": "Km_taumax", "vx": "CaT_vx", "k_minus": "IonotropicSynapse_k_minus"}


def load_kinetics():
    cfg = os.path.join(C.SPEC, "Kinetics.cfg")
    res = C.run_tlc("Kinetics", cfg, "kinetics", workers=1, timeout=120)
    if not res.ok:
        raise C.MachineryError("Kinetics.tla failed:\n" + res.out[-1500:])
    line = res.printed("KINETICS")[0]
    return json.loads(line[line.index('"{') + 1: line.rindex('}"') + 1].replace('\\"', '"')), res


def mech(gate):
    import importlib
    modname, cls, _, _, _ = GATES[gate]
    return getattr(importlib.import_module("jaxley." + modname), cls)


def gate_fn(gate, pval):
    """v -> (alpha, beta) or (x_inf, tau) as the CODE computes it (traceable)."""
    from harness.jaxsetup import jnp
    modname, cls, meth, pname, _ = GATES[gate]
    M = mech(gate)
    if meth is not None:
        f = getattr(M, meth)
        return (lambda v: f(v)) if pname is None else (lambda v: f(v, pval))
    # synapses expose only update_states: recover (s_inf, tau) through two updates is awkward; trace the update
    syn = M()
    skey = list(syn.synapse_states)[0]
    params = dict(syn.synapse_params)
    if pname is not None:
        params[PARAM_KEY[pname]] = pval

    def upd(v, x=0.5, dt=0.025):
        return (syn.update_states({skey: x}, dt, v, 0.0, params)[skey],)
    return upd


def update_fn(gate, pval):
    """(v array, x, dt) -> new gate value through the mechanism's own update_states."""
    from harness.jaxsetup import jnp
    modname, cls, meth, pname, _ = GATES[gate]
    M = mech(gate)()
    if modname == "channels":
        params = {k: jnp.asarray(v) for k, v in M.channel_params.items()}
        if pname is not None:
            params[PARAM_KEY[pname]] = jnp.asarray(pval)

        def upd(v, x, dt):
            states = {k: jnp.full(v.shape, x) for k in M.channel_states}
            return M.update_states(states, dt, v, params)[gate]
        return upd
    skey = list(M.synapse_states)[0]
    params = dict(M.synapse_params)
    if pname is not None:
        params[PARAM_KEY[pname]] = pval
    return lambda v, x, dt: M.update_states({skey: jnp.full(v.shape, x)}, dt, v, jnp.zeros(v.shape), params)[skey]


def run_exprabs(progs, name):
    pf = os.path.join(C.WORK, "progs_%s.json" % name)
    os.makedirs(C.WORK, exist_ok=True)
    json.dump(progs, open(pf, "w"))
    cfg = os.path.join(C.WORK, "exprabs_%s.cfg" % name)
    C.write_cfg(cfg, constraints=["Report"])
    res = C.run_tlc("ExprAbs", cfg, "exprabs_" + name, workers=1, timeout=600, env={"PROGS_FILE": pf})
    if not res.ok:
        raise C.MachineryError("ExprAbs.tla failed:\n" + res.out[-2500:])
    cells = []
    for line in res.printed("CELL"):
        cells.append(json.loads(line[line.index('"{') + 1: line.rindex('}"') + 1].replace('\\"', '"')))
    if not cells:
        raise C.MachineryError("ExprAbs produced no cells")
    return cells, res


def fr(q):
    return Fraction(int(q[0]), int(q[1]))


def cell_points(cell, n_interior, rng):
    """Concrete obligations of one cell: the point itself, +-1..4 ulp, +-1e-9; for intervals the ends
    (just inside), the middle and seeded interior doubles."""
    import numpy as np
    pts = []
    if cell["pt"]:
        x = float(fr(cell["x"]))
        pts.append(x)
        up = dn = x
        for _ in range(4):
            up = np.nextafter(up, np.inf)
            dn = np.nextafter(dn, -np.inf)
            pts += [float(up), float(dn)]
        pts += [x + 1e-9, x - 1e-9, x + 1e-6, x - 1e-6]
        # thresholds the program itself tests around this root (ExprAbs.ThreshAt): both sides of x +- delta, the
        # threshold itself +- ulps, and log-spaced offsets through the neighbourhood
        for q in cell.get("thr", []):
            d = float(fr(q))
            for sgn in (1.0, -1.0):
                t = x + sgn * d
                pts += [t, float(np.nextafter(t, np.inf)), float(np.nextafter(t, -np.inf))]
                pts += [x + sgn * d * f for f in (0.01, 0.1, 0.3, 0.5, 0.9, 0.99, 1.01, 1.1, 2.0, 3.0, 5.0, 9.0, 11.0, 30.0, 100.0, 1e3, 1e4)]
    else:
        lo, hi = float(fr(cell["lo"])), float(fr(cell["hi"]))
        pts += [float(np.nextafter(lo, np.inf)), float(np.nextafter(hi, -np.inf)), 0.5 * (lo + hi)]
        pts += [float(x) for x in rng.uniform(lo, hi, n_interior)]
    return pts


def cell_name(cell):
    if cell["pt"]:
        return "pt:%s" % float(fr(cell["x"]))
    return "(%s,%s)" % (float(fr(cell["lo"])), float(fr(cell["hi"])))


def progs_for(kin, which=("code", "pub")):
    from harness import ssa
    progs = {}
    for gate, (modname, cls, meth, pname, pvals) in GATES.items():
        for pv in pvals:
            tag = "%s@%s" % (gate, "-" if pv is None else pv)
            if "code" in which:
                progs["code:" + tag] = ssa.to_ssa(gate_fn(gate, pv))
            if "pub" in which and gate in kin["gates"]:
                g = kin["gates"][gate]
                progs["pub:" + tag] = ssa.tree_to_ssa([g["a"], g["b"]], {pname: pv} if pname else {})
    return progs


# ----------------------------------------------------------------------------------------
def main_c03():
    import numpy as np
    import mpmath as mp
    from harness.jaxsetup import jnp
    mp.mp.dps = 40
    chk = C.Check("C03", "exploration")
    quick = C.tier() == "quick"
    rng = np.random.default_rng(C.seed())
    kin, _ = load_kinetics()
    progs = progs_for(kin, which=("code",))
    cells, res = run_exprabs(progs, "c03")
    n_int = 16 if quick else 512
    dts = [1e-6, 0.025, 1.0, 37.0, 1e3]
    xs = [0.0, 0.3, 1.0, float(rng.uniform(0, 1))]
    evals = 0
    abstract_bad = confirmed = undecided = seams = 0
    by_prog = {}
    for c in cells:
        by_prog.setdefault(c["prog"], []).append(c)
    for pname, cl in sorted(by_prog.items()):
        gate, pv = pname[len("code:"):].split("@")
        pv = None if pv == "-" else float(pv)
        kind = kin["gates"][gate]["kind"] if gate in kin["gates"] else "inf_tau"
        is_syn = GATES[gate][2] is None
        f = gate_fn(gate, pv)
        upd = update_fn(gate, pv)
        for c in cl:
            pts = np.asarray(cell_points(c, n_int, rng))
            sig = {"gate": gate, "param": pv, "cell": cell_name(c) if c["pt"] else "interval"}
            abs_bad = len(c["bad"]) > 0
            abstract_bad += abs_bad
            undecided += any(s == "unk" for s in c["signs"])
            rates_ok = np.ones(len(pts), dtype=bool)
            if not is_syn:
                o1, o2 = (np.asarray(o, dtype=float) for o in f(jnp.asarray(pts)))
                evals += len(pts)
                if kind == "ab":
                    rates_ok = np.isfinite(o1) & np.isfinite(o2) & (o1 > 0) & (o2 > 0)
                    what = "rate function is not finite and positive"
                else:
                    rates_ok = np.isfinite(o1) & np.isfinite(o2) & (o1 >= 0) & (o1 <= 1) & (o2 > 0)
                    what = "steady state not in [0,1] or time constant not positive"
                if not rates_ok.all():
                    i = int(np.where(~rates_ok)[0][0])
                    confirmed += abs_bad
                    chk.violation({**sig, "what": what},
                                  {"v": float(pts[i]), "outputs": [float(o1[i]), float(o2[i])], "abstract_bad_nodes": c["bad"],
                                   "cell": c})
            # a removable singularity is filled continuously: through the neighbourhood of a root around which the program
            # switches branches (ExprAbs.ThreshAt), every output stays on the chord between the outer neighbours
            if c["pt"] and c.get("thr"):
                x0 = float(fr(c["x"]))
                H = 1e4 * max(float(fr(q)) for q in c["thr"])
                near = np.abs(pts - x0) <= H * (1 + 1e-9)
                outs = [o1, o2] if not is_syn else [np.asarray(upd(jnp.asarray(pts), 0.5, 1.0), dtype=float)]
                ends = np.asarray([x0 - H, x0 + H])
                eouts = ([np.asarray(o, dtype=float) for o in f(jnp.asarray(ends))] if not is_syn
                         else [np.asarray(upd(jnp.asarray(ends), 0.5, 1.0), dtype=float)])
                seams += 1
                for o, e in zip(outs, eouts):
                    if not (np.isfinite(e).all() and np.isfinite(o[near]).all()):
                        continue            # reported above
                    chord = e[0] + (e[1] - e[0]) * (pts[near] - ends[0]) / (2 * H)
                    dev = np.abs(o[near] - chord)
                    tol = 1e-3 * max(abs(e[0]), abs(e[1])) + 1e-12
                    evals += int(near.sum())
                    if (dev > tol).any():
                        i = int(np.argmax(dev))
                        chk.violation({**sig, "what": "output jumps inside the neighbourhood of a removable singularity"},
                                      {"v": float(pts[near][i]), "offset_from_root": float(pts[near][i] - x0), "got": float(o[near][i]),
                                       "chord": float(chord[i]), "ends": [float(e[0]), float(e[1])], "thresholds": c["thr"]})
                        break
            for dt in dts:
                for x in xs:
                    new = np.asarray(upd(jnp.asarray(pts), x, dt), dtype=float)
                    evals += len(pts)
                    ok = np.isfinite(new) & (new >= -1e-15) & (new <= 1 + 1e-15)
                    if not ok.all():
                        i = int(np.where(~ok)[0][0])
                        chk.violation({**sig, "what": "update leaves [0,1] or is not finite"},
                                      {"v": float(pts[i]), "dt": dt, "x": x, "new": float(new[i]), "cell": c})
                        continue
                    if is_syn:
                        # a synapse exposes only its update: the steady state and time constant of the closed form come from the
                        # specification's tree of the mechanism (Kinetics.tla), evaluated in 40 digits with THIS parameter value
                        if gate not in kin["gates"]:
                            continue
                        from harness import ssa as _ssa
                        g_ = kin["gates"][gate]
                        prm = {GATES[gate][3]: pv} if GATES[gate][3] else {}
                        idx = np.arange(len(pts))[:: max(1, len(pts) // 12)]
                        for i in idx:
                            xinf = _ssa.eval_tree(g_["a"], float(pts[i]), prm, mp)
                            tau = _ssa.eval_tree(g_["b"], float(pts[i]), prm, mp)
                            want = xinf + (mp.mpf(x) - xinf) * mp.exp(-mp.mpf(dt) / tau)
                            # the time constant is formed from 1 - s_inf, which loses digits where s_inf is close to 1: a backward
                            # stable evaluation is off by a few ulps of s_inf relative to 1 - s_inf, times the sensitivity to log tau
                            sens = abs((mp.mpf(x) - xinf) * mp.exp(-mp.mpf(dt) / tau) * (mp.mpf(dt) / tau))
                            tol = mp.mpf("1e-9") + 16 * mp.mpf("2.3e-16") / max(1 - xinf, mp.mpf("1e-300")) * sens
                            if abs(mp.mpf(float(new[i])) - want) > tol:
                                chk.violation({**sig, "what": "update differs from the closed-form solution"},
                                              {"v": float(pts[i]), "dt": dt, "x": x, "new": float(new[i]), "want": float(want), "param": pv,
                                               "tolerance": float(tol)})
                                break
                        continue
                    # closed form x_inf + (x - x_inf) exp(-dt/tau) from the code's own rates, in 40 digits
                    idx = np.where(rates_ok)[0]
                    idx = idx[:: max(1, len(idx) // 12)]
                    for i in idx:
                        a, b = mp.mpf(float(o1[i])), mp.mpf(float(o2[i]))
                        xinf, tau = (a / (a + b), 1 / (a + b)) if kind == "ab" else (a, b)
                        want = xinf + (mp.mpf(x) - xinf) * mp.exp(-mp.mpf(dt) / tau)
                        lo_, hi_ = min(mp.mpf(x), xinf), max(mp.mpf(x), xinf)
                        if abs(mp.mpf(float(new[i])) - want) > 1e-9:
                            chk.violation({**sig, "what": "update differs from the closed-form solution"},
                                          {"v": float(pts[i]), "dt": dt, "x": x, "new": float(new[i]), "want": float(want)})
                            break
                        if not (lo_ - 1e-15 <= float(new[i]) <= hi_ + 1e-15):
                            chk.violation({**sig, "what": "update moves past the steady state"},
                                          {"v": float(pts[i]), "dt": dt, "x": x, "new": float(new[i]), "xinf": float(xinf)})
                            break
    chk.set("evaluations", evals)
    chk.set("distinct_nontrivial", len(cells))
    chk.set("programs", len(by_prog))
    chk.set("cells", len(cells))
    chk.set("point_cells", sum(1 for c in cells if c["pt"]))
    chk.set("abstract_nan_or_inf_cells", abstract_bad)
    chk.set("abstract_cells_confirmed_concretely", confirmed)
    chk.set("cells_with_unk_outputs", undecided)
    chk.set("removable_singularities_checked_for_continuity", seams)
    chk.set("tlc_states", res.distinct)
    chk.set("rule", "TLC (ExprAbs.tla) derives the partition of [-200,200] mV from the traced rate programs (roots of affine nodes, "
                    "clip breakpoints) for every gate x parameter value; distinct_nontrivial = derived cells; each cell yields the point, "
                    "+-1..4 ulp, +-1e-9, the interval ends and %d seeded interior doubles, crossed with dt in %s and 4 state values" % (n_int, dts))
    for c in [c for c in cells if c["pt"]][:4]:
        chk.sample({"prog": c["prog"], "cell": cell_name(c), "abstract_signs": c["signs"], "bad_nodes": c["bad"]})
    chk.assume("sound transfer functions of the abstract interpreter over the reals; the float remainder is sampled, not proved",
               "mpmath for the closed form", "an abstract nan/inf is reported only if a concrete evaluation confirms it")
    return chk.finish()


# ----------------------------------------------------------------------------------------
def main_c04():
    import numpy as np
    import mpmath as mp
    from harness.jaxsetup import jnp
    from harness import ssa
    mp.mp.dps = 50
    chk = C.Check("C04", "exploration")
    quick = C.tier() == "quick"
    rng = np.random.default_rng(C.seed())
    kin, _ = load_kinetics()
    progs = progs_for(kin)
    for p in progs.values():
        p["lo"], p["hi"] = [-150, 1], [100, 1]
    cells, res = run_exprabs(progs, "c04")
    n_int = 12 if quick else 400
    evals = 0
    undecided = {}
    pending, agree_somewhere = [], set()
    by_tag = {}
    for c in cells:
        by_tag.setdefault(c["prog"].split(":", 1)[1], []).append(c)
    for tag, cl in sorted(by_tag.items()):
        gate, pv = tag.split("@")
        pv = None if pv == "-" else float(pv)
        if gate not in kin["gates"]:
            continue
        g = kin["gates"][gate]
        pname = GATES[gate][3]
        params = {pname: pv} if pname else {}
        is_syn = GATES[gate][2] is None
        pts = sorted(set(x for c in cl for x in cell_points(c, n_int, rng)))
        pts = np.asarray(pts)
        if is_syn:
            upd = update_fn(gate, pv)
            got = [np.asarray(upd(jnp.asarray(pts), 0.3, dt), dtype=float) for dt in (0.025, 1.0)]
        else:
            o1, o2 = (np.asarray(o, dtype=float) for o in gate_fn(gate, pv)(jnp.asarray(pts)))
        evals += len(pts)
        worst = 0.0
        bad = None
        badpts = set()
        for i, v in enumerate(pts):
            a = ssa.eval_tree(g["a"], v, params, mp)
            b = ssa.eval_tree(g["b"], v, params, mp)
            if is_syn:
                for dt, gnew in zip((0.025, 1.0), got):
                    want = a + (mp.mpf("0.3") - a) * mp.exp(-mp.mpf(dt) / b)
                    err = abs(mp.mpf(float(gnew[i])) - want) if math.isfinite(gnew[i]) else mp.inf
                    if err > 1e-9:
                        badpts.add(i)
                    if err > 1e-9 and bad is None:
                        bad = {"v": float(v), "dt": dt, "got": float(gnew[i]), "published": float(want)}
                continue
            for got_, want in ((o1[i], a), (o2[i], b)):
                if not math.isfinite(got_):
                    err = mp.inf
                else:
                    err = abs(mp.mpf(float(got_)) - want)
                tol = mp.mpf("1e-9") * abs(want) + mp.mpf("1e-7") if g["kind"] == "ab" else mp.mpf("1e-9") * (1 + abs(want))
                if err > tol:
                    badpts.add(i)
                if err > tol and bad is None:
                    bad = {"v": float(v), "got": [float(o1[i]), float(o2[i])], "published": [float(a), float(b)]}
        if bad is not None:
            # a transcription from memory is corroborated by the code itself when the two agree on (nearly) all of the
            # seeded doubles: two different analytic formulas cannot; what remains is the code leaving its own formula
            corroborated = len(badpts) <= 0.2 * len(pts)
            bad["points_disagreeing"], bad["points"] = len(badpts), int(len(pts))
            if g["verified"] == "source_offline" or corroborated or not math.isfinite(sum(np.atleast_1d(bad["got"]))):
                chk.violation({"gate": gate, "param": pv, "what": "rate function differs from the published equation",
                               "verified": g["verified"] if g["verified"] == "source_offline" else "corroborated_elsewhere"}, bad)
            else:
                # the published entry is transcribed from memory: decided below, once every parameter value of the gate was seen
                pending.append((gate, pv, tag, bad))
        else:
            agree_somewhere.add(gate)
    # a gate whose transcription the code reproduces exactly for SOME value of its parameter is corroborated as a whole: the two
    # formulas are the same function of (v, parameter) up to where the code leaves it
    for gate, pv, tag, bad in pending:
        if gate in agree_somewhere:
            chk.violation({"gate": gate, "param": pv, "what": "rate function differs from the published equation",
                           "verified": "corroborated_at_another_parameter_value"}, bad)
        else:
            undecided[tag] = bad
    # currents and defaults
    import importlib
    ncur = 0
    for name, cur in kin["currents"].items():
        M = getattr(importlib.import_module("jaxley.channels"), name)()
        dflt = kin["defaults"][name]
        # defaults: exact
        for k, t in dflt.items():
            want = float(Fraction(int(t["c"][0]), int(t["c"][1])))
            if k not in M.channel_params or float(M.channel_params[k]) != want:
                chk.violation({"mechanism": name, "what": "default parameter differs from the documented value", "key": k},
                              {"got": M.channel_params.get(k), "want": want})
        if set(dflt) != set(M.channel_params):
            chk.violation({"mechanism": name, "what": "parameter set differs from the published model"},
                          {"got": sorted(M.channel_params), "want": sorted(dflt)})
        ntot = 20 if quick else 400
        agrees_at_defaults = True
        for it_ in range(ntot + 8):
            v = float(rng.uniform(-150, 100))
            # the first 8 evaluations use the default parameters: a transcription from memory that the code reproduces there
            # is corroborated, and a disagreement that appears only once the parameters move is the code's
            fac = (lambda: 1.0) if it_ < 8 else (lambda: float(rng.uniform(0.5, 2.0)))
            params = {k: float(val) * fac() for k, val in M.channel_params.items()}
            states = {k: float(rng.uniform(0, 1)) for k in M.channel_states}
            got = float(M.compute_current({k: jnp.asarray(x) for k, x in states.items()}, jnp.asarray(v),
                                          {k: jnp.asarray(x) for k, x in params.items()}))
            want = ssa.eval_tree(cur["expr"], v, {**params, **states}, mp)
            ncur += 1
            if abs(mp.mpf(got) - want) > 1e-9 * (abs(want) + mp.mpf("1e-12")):
                lvl = cur["verified"]
                if it_ < 8:
                    agrees_at_defaults = False
                decided = lvl == "source_offline" or (it_ >= 8 and agrees_at_defaults)
                (chk.violation if decided else lambda s, d: undecided.__setitem__("current:" + name, d))(
                    {"mechanism": name, "what": "current differs from the published equation"},
                    {"v": v, "params": params, "states": states, "got": got, "published": float(want),
                     "verified": lvl if lvl == "source_offline" else "corroborated_at_default_parameters"})
                break
    evals += ncur
    # renaming changes only names: prefixes incl. ones that are prefixes of parameter names
    nren = 0
    for name in kin["currents"]:
        cls = getattr(importlib.import_module("jaxley.channels"), name)
        for new in ["X", name + "2", "g", "e", name[0], "vt_" + name]:
            base, ren = cls(), cls().change_name(new)
            nren += 1
            def ren_key(k):
                return new + k[len(name):] if k.startswith(name) else k
            want_p = {ren_key(k): v for k, v in base.channel_params.items()}
            want_s = {ren_key(k): v for k, v in base.channel_states.items()}
            if dict(ren.channel_params) != want_p or dict(ren.channel_states) != want_s or ren._name != new:
                chk.violation({"mechanism": name, "what": "change_name changes more than the name prefix", "new_name": new},
                              {"params": dict(ren.channel_params), "want": want_p})
                continue
            v = jnp.asarray(rng.uniform(-100, 50, 5))
            st_b = {k: jnp.asarray(rng.uniform(0, 1, 5)) for k in base.channel_states}
            st_r = {ren_key(k): x for k, x in st_b.items()}
            pb = {k: jnp.asarray(float(x)) for k, x in base.channel_params.items()}
            pr = {ren_key(k): x for k, x in pb.items()}
            ub, ur = base.update_states(dict(st_b), 0.025, v, pb), ren.update_states(dict(st_r), 0.025, v, pr)
            same = all(np.array_equal(np.asarray(ub[k]), np.asarray(ur[ren_key(k)]), equal_nan=True) for k in ub)
            same &= np.array_equal(np.asarray(base.compute_current(st_b, v, pb)), np.asarray(ren.compute_current(st_r, v, pr)), equal_nan=True)
            if not same:
                chk.violation({"mechanism": name, "what": "renamed mechanism has different dynamics", "new_name": new}, {})
    for k, d in undecided.items():
        print("UNDECIDED (published entry transcribed from memory, see Kinetics.tla): %s %s" % (k, json.dumps(d)[:200]))
    chk.set("evaluations", evals + nren)
    chk.set("distinct_nontrivial", len(cells))
    chk.set("cells", len(cells))
    chk.set("gates_compared", len(by_tag))
    chk.set("current_evaluations", ncur)
    chk.set("renamings", nren)
    chk.set("undecided_against_recollection", sorted(undecided))
    chk.set("rule", "cells derived by TLC from the code's traced programs UNITED with the cells derived from the published trees of "
                    "Kinetics.tla (a singularity present in only one of the two is still a cell); per cell the point, +-ulps, ends and %d "
                    "interior doubles; published value evaluated from the TLA+ tree in 50 digits" % n_int)
    for c in cells[:3]:
        chk.sample({"prog": c["prog"], "cell": cell_name(c)})
    chk.assume("the transcription of the published equations into Kinetics.tla is the trusted base; entries marked `recollection`/"
               "`contested` yield UNDECIDED when the code disagrees with them on more than a fifth of the points, and a violation when the disagreement is confined to fewer points (the rest corroborates the transcription) or the value is not finite", "mpmath")
    return chk.finish()


# ----------------------------------------------------------------------------------------
def main_c14():
    import numpy as np
    from harness.jaxsetup import jnp, jx
    import importlib
    chk = C.Check("C14", "exploration")
    quick = C.tier() == "quick"
    rng = np.random.default_rng(C.seed())
    kin, _ = load_kinetics()
    progs = progs_for(kin, which=("code",))
    progs = {k: v for k, v in progs.items() if not k.split(":")[1].startswith(("Iono", "Test"))}
    for p in progs.values():
        p["lo"], p["hi"] = [-120, 1], [60, 1]
    cells, res = run_exprabs(progs, "c14")
    chans = importlib.import_module("jaxley.channels")
    dts = [1e-3, 0.025, 1.0, 1e3]
    evals = 0
    n_int = 3 if quick else 40
    # voltages: every derived point cell and seeded interior points
    volts = sorted(set(round(x, 12) for c in cells for x in cell_points(c, n_int, rng) if -120 <= x <= 60))
    if quick:
        pts = [float(fr(c["x"])) for c in cells if c["pt"]]
        volts = sorted(set(pts + list(rng.choice(volts, 60, replace=False))))
    setups = [
        ("HH", [("HH", None)], {}),
        ("pospischil", [("Na", None), ("K", None), ("Km", None), ("CaL", None), ("CaT", None), ("Leak", None)], {}),
        ("shifted", [("Na", None), ("K", None), ("Km", None), ("CaT", None)], {"vt": -50.5, "Km_taumax": 1000.0, "CaT_vx": -7.5}),
        ("renamed", [("Na", "myNa"), ("CaT", "T2"), ("Km", "M")], {}),
        # two instances of one class under different names side by side (each has its own gates and parameters)
        ("two_instances", [("Na", None), ("Na", "Na2"), ("K", None), ("K", "K2"), ("HH", None), ("HH", "HHb")], {}),
        # compartments that share a voltage but not their parameters (every voltage three times, parameters cycling)
        ("heterogeneous", [("Na", None), ("K", None), ("Km", None), ("CaT", None), ("HH", None)],
         {"vt": [-63.0, -50.5, -57.0], "CaT_vx": [2.0, -7.5, 0.0], "Km_taumax": [4000.0, 1000.0, 2500.0]}),
    ]
    all_volts = volts
    for sname, chlist, overrides in setups:
        if sname == "heterogeneous":
            sub = sorted(set([float(fr(c["x"])) for c in cells if c["pt"]][:30] + list(rng.choice(all_volts, 10, replace=False))))
            volts = [x for x in sub for _ in range(3)]
        else:
            volts = all_volts
        nv = len(volts)
        # a branch with one compartment per voltage; channels inserted only in the first 2/3 (partial insertion)
        comp = jx.Compartment()
        branch = jx.Branch(comp, ncomp=nv)
        k_in = max(1, (2 * nv) // 3)
        objs = []
        for cname, newname in chlist:
            ch = getattr(chans, cname)()
            if newname:
                ch = ch.change_name(newname)
            objs.append(ch)
            branch.comp(list(range(k_in))).insert(ch)
        for k, val in overrides.items():
            if k in branch.nodes.columns:
                if isinstance(val, list):
                    branch.comp(list(range(k_in))).set(k, np.asarray([val[i % len(val)] for i in range(k_in)]))
                else:
                    branch.set(k, val)
        # two phases: the first init_states() of a fresh module, then - after the module was cast to jax and simulated-from
        # tables exist - changed parameters and voltages and a SECOND init_states() (it must use the tables as they are now)
        for phase in ("fresh", "after_cast_and_edit"):
            if phase == "after_cast_and_edit":
                branch.to_jax()
                volts = list(reversed(volts))
                for k, val in (("vt", -55.25), ("CaT_vx", 4.5), ("Km_taumax", 1500.0)):
                    if k in branch.nodes.columns:
                        branch.comp(list(range(k_in))).set(k, np.asarray([val + 1.5 * (i % 3) for i in range(k_in)]))
            sname_ = sname + ("" if phase == "fresh" else "+history")
            branch.set("v", np.asarray(volts))
            before = branch.nodes.copy()
            branch.init_states()
            after = branch.nodes
            state_cols = [s for ch in objs for s in ch.channel_states]
            # write set: only gate columns, only rows with the channel
            for col in after.columns:
                a, b = after[col].to_numpy(), before[col].to_numpy()
                same = (a == b) | ((a != a) & (b != b)) if a.dtype.kind == "f" else (a == b)
                if col not in state_cols and not np.all(same):
                    chk.violation({"setup": sname_, "what": "init_states changed a column that is not a gate", "column": col}, {})
                if col in state_cols and not np.all(same[k_in:]):
                    chk.violation({"setup": sname_, "what": "init_states wrote rows that do not contain the channel", "column": col}, {})
            for ch in objs:
                name = ch._name
                params = {k: jnp.asarray(after[k].to_numpy()[:k_in]) for k in ch.channel_params}
                states = {k: jnp.asarray(after[k].to_numpy()[:k_in]) for k in ch.channel_states}
                v = jnp.asarray(np.asarray(volts)[:k_in])
                for dt in dts:
                    new = ch.update_states(dict(states), dt, v, params)
                    evals += k_in * len(states)
                    for k in states:
                        s0, s1 = np.asarray(states[k]), np.asarray(new[k])
                        bad = ~(np.abs(s1 - s0) <= 1e-12)
                        if bad.any():
                            i = int(np.where(bad)[0][0])
                            vi = float(v[i])
                            singular = any(c["pt"] and abs(float(fr(c["x"])) - vi) < 1e-9 for c in cells)
                            chk.violation({"channel": type(ch).__name__, "state": k.replace(name, type(ch).__name__),
                                           "what": "init_states is not a fixed point of the update", "at_singular_voltage": bool(singular and not np.isfinite(s0[i]))},
                                          {"setup": sname_, "v": vi, "dt": dt, "init": float(s0[i]), "after_update": float(s1[i])})
                            break
    chk.set("evaluations", evals)
    chk.set("distinct_nontrivial", len(all_volts))
    chk.set("voltages", len(all_volts))
    chk.set("setups", [s[0] for s in setups])
    chk.set("cells", len(cells))
    chk.set("rule", "voltages = every point cell TLC derives from the traced rate programs in [-120, 60] mV plus seeded interior doubles of "
                    "every interval cell; per setup (HH, all Pospischil channels, shifted parameters, renamed channels; channels inserted "
                    "in 2/3 of the compartments; each setup a second time after to_jax() and edited parameters / voltages) init_states() then one update at dt in %s must leave every gate unchanged to 1e-12; "
                    "distinct_nontrivial = distinct voltages" % dts)
    chk.sample({"voltages": all_volts[:8], "setup": setups[2][0], "overrides": setups[2][2]})
    chk.assume("fixed point tested through the mechanisms' own update_states", "TLC-derived partition (ExprAbs.tla)")
    return chk.finish()


if __name__ == "__main__":
    which = sys.argv[1]
    C.main_wrapper({"C03": main_c03, "C04": main_c04, "C14": main_c14}[which])

"""X03 (not one of the listed properties): Optimizer.tla replayed into jaxley.optimize.optimizer.TypeOptimizer (+ l2_norm).

usage: python -m harness.optimizer_check
"""
import json
import math
import os

from harness import common as C

LR = {"g": 1.0, "r": 4.0, "c": 2.0}
MU = {"g": 2.0, "r": 1.0, "c": 3.0}


def main():
    chk = C.Check("X03", "model_checking")
    res = C.run_tlc("Optimizer", os.path.join(C.SPEC, "Optimizer.cfg"), "opt", workers=8, timeout=900)
    if res.violated:
        chk.violation({"tlc_invariant": res.violated}, res.out[-2000:])
        return chk.finish()
    if not res.ok:
        raise C.MachineryError("Optimizer.tla failed:\n" + res.out[-2000:])
    beh = [json.loads(l[l.index('"{') + 1: l.rindex('}"') + 1].replace('\\"', '"')) for l in res.printed("OPT")]
    if len(beh) < 1000:
        raise C.MachineryError("only %d behaviours emitted" % len(beh))
    from harness.jaxsetup import jnp, np
    import optax
    from jaxley.optimize.optimizer import TypeOptimizer
    from jaxley.optimize.utils import l2_norm
    # all behaviours of the layouts with at most two entries, a seeded sample of the longer ones
    beh.sort(key=lambda b: json.dumps(b, sort_keys=True))
    short = [b for b in beh if len(b["layout"]) <= 2]
    long_ = [b for i, b in enumerate(b for b in beh if len(b["layout"]) > 2) if (i * 2654435761 + C.seed()) % 16 == 0]
    n = steps = 0
    for b in short + long_:
        layout = b["layout"]
        # leaves of different shapes: entry i holds i + 1 values, all of which receive the same gradient
        params = [{name: jnp.zeros(i + 1)} for i, name in enumerate(layout)]
        args = {k: (LR[k], MU[k]) for k in set(layout)}
        n += 1
        sig0 = {"fn": "TypeOptimizer", "repeated_name": len(set(layout)) < len(layout), "entries": len(layout)}
        try:
            opt = TypeOptimizer(lambda a: optax.sgd(a[0], momentum=a[1]), args, params)
            state = opt.init(params)
        except Exception as e:                                      # the specification's Setup is enabled for every layout
            chk.violation({**sig0, "raised": type(e).__name__}, {"behaviour": b, "error": str(e)[:300]})
            continue
        sig = {"fn": "TypeOptimizer.update", "repeated_name": len(set(layout)) < len(layout), "entries": len(layout)}
        for k, st in enumerate(b["log"]):
            grads = [{name: jnp.full(i + 1, float(st["grads"][i]))} for i, name in enumerate(layout)]
            try:
                upd, state = opt.update(grads, state)
            except Exception as e:
                chk.violation({**sig, "raised": type(e).__name__}, {"behaviour": b, "step": k, "error": str(e)[:300]})
                break
            steps += 1
            ok = isinstance(upd, list) and len(upd) == len(layout)
            ok = ok and all(list(u.keys()) == [name] and np.asarray(u[name]).shape == (i + 1,)
                            and np.array_equal(np.asarray(u[name]), np.full(i + 1, float(st["updates"][i])))
                            for i, (u, name) in enumerate(zip(upd, layout)))
            if not ok:
                chk.violation(sig, {"behaviour": b, "step": k, "got": [{k2: np.asarray(v).tolist() for k2, v in u.items()} for u in upd]})
                break
            want = math.sqrt(sum((i + 1) * st["updates"][i] ** 2 for i in range(len(layout))))
            got = float(l2_norm(upd))
            if abs(got - want) > 1e-12 * max(1.0, want):
                chk.violation({"fn": "l2_norm"}, {"behaviour": b, "step": k, "got": got, "want": want})
                break
    chk.set("states", res.distinct)
    chk.set("transitions", res.generated)
    chk.set("traces_validated_against_impl", n)
    chk.set("behaviours_replayed", n)
    chk.set("update_calls_compared", steps)
    chk.set("exhaustive", True)
    chk.set("evaluations", steps)
    chk.set("distinct_nontrivial", len(beh))
    chk.set("rule", "Optimizer.tla: 5 layouts (names may repeat) x 3 whole-number gradients per entry x 3 updates; invariants "
                    "StructurePreserved, EntriesIndependent (closed form of a lone optax.sgd with momentum per entry), SameNameSameStep, "
                    "DifferentNameDifferentStep, ZeroStays, action property LayoutFixed; every behaviour of the layouts with <= 2 entries "
                    "and a seeded 1/16 of the others replayed into TypeOptimizer(optax.sgd) with leaves of different shapes and compared "
                    "with == after every update; l2_norm of the updates against the closed form")
    chk.sample(beh[len(beh) // 3])
    chk.assume("TLC", "whole-number learning rates, momenta and gradients (float64 arithmetic exact); not one of the listed properties")
    return chk.finish()


if __name__ == "__main__":
    C.main_wrapper(main)

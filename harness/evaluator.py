"""Field-generic evaluator of the algebraic specification (spec/Field.tla, Morph.tla, Cable.tla).

The operators below are transcriptions of the TLA+ operators of the same name, parametrised by a
scalar type.  The evaluator is NOT trusted: every check first instantiates it with Z_P and requires
it to reproduce, exactly, the solution vectors TLC prints for the same configurations and seeds
(harness/c01.py: cross-check).  Only then is it used with float64 as the oracle for the real code.
"""
import math

import numpy as np


# ----------------------------------------------------------------------------------------
# scalar types
# ----------------------------------------------------------------------------------------
class Zp:
    """Arithmetic of spec/Field.tla over the prime field Z_P."""

    def __init__(self, P, seed):
        self.P = P
        self.seed = seed
        self.pi = self.rnd(9002)

    def K(self, n):
        return n % self.P

    def add(self, a, b):
        return (a + b) % self.P

    def sub(self, a, b):
        return (a - b) % self.P

    def mul(self, a, b):
        return (a * b) % self.P

    def neg(self, a):
        return (-a) % self.P

    def inv(self, a):
        if a % self.P == 0:
            raise ZeroDivisionError
        return pow(a, self.P - 2, self.P)

    def div(self, a, b):
        return self.mul(a, self.inv(b))

    def is_zero(self, a):
        return a % self.P == 0

    def rnd(self, k):
        P = self.P
        kk = k % P
        s = self.seed % P
        return ((kk * 7919 % P + s * 1543 % P + (kk * kk % P) * 31 % P + (kk * s % P) * 17 % P) % (P - 1)) + 1


class Fl:
    """The same interface over float64."""

    pi = math.pi

    def K(self, n):
        return float(n)

    def add(self, a, b):
        return a + b

    def sub(self, a, b):
        return a - b

    def mul(self, a, b):
        return a * b

    def neg(self, a):
        return -a

    def inv(self, a):
        return 1.0 / a

    def div(self, a, b):
        return a / b

    def is_zero(self, a):
        return a == 0.0


# ----------------------------------------------------------------------------------------
# Morph.tla
# ----------------------------------------------------------------------------------------
class Morph:
    """parents: 1-based parent of each branch, 0 for the root branch of a cell (as in Morph.tla)."""

    def __init__(self, parents, ncomp):
        self.parents = list(parents)
        self.ncomp = list(ncomp)
        self.nb = len(parents)
        self.offs = [0]
        for k in ncomp:
            self.offs.append(self.offs[-1] + k)
        self.ncomps = self.offs[-1]
        self.branch_of = []
        for b, k in enumerate(ncomp):
            self.branch_of += [b] * k
        self.parent_branches = sorted(set(p - 1 for p in parents if p != 0))  # 0-based ids
        self.nbp = len(self.parent_branches)
        self.bp_rank = {p: i for i, p in enumerate(self.parent_branches)}
        self.nnodes = self.ncomps + self.nbp
        self.level = []
        for b in range(self.nb):
            self.level.append(0 if parents[b] == 0 else self.level[parents[b] - 1] + 1)
        roots = [b for b in range(self.nb) if parents[b] == 0]
        self.cell_of = [sum(1 for r in roots if r <= b) - 1 for b in range(self.nb)]

    def first(self, b):
        return self.offs[b]

    def last(self, b):
        return self.offs[b + 1] - 1

    def children(self, p):
        return [b for b in range(self.nb) if self.parents[b] == p + 1]

    def bp_members(self, p):
        return [self.last(p)] + [self.first(b) for b in self.children(p)]

    def neigh(self, c):
        b = self.branch_of[c]
        out = []
        if c > self.first(b):
            out.append(c - 1)
        if c < self.last(b):
            out.append(c + 1)
        return out

    def key(self, c, blab=None, NC=3):
        b = self.branch_of[c]
        lab = (b + 1) if blab is None else blab[b]
        return lab * (NC + 1) + (c - self.offs[b] + 1)

    def accepts_padded(self):
        """Hines.tla Accepts: all blocks of a level have the same padded size."""
        pad = {}
        for b in range(self.nb):
            k = (self.cell_of[b], self.level[b])
            pad[k] = max(pad.get(k, 0), self.ncomp[b])
        for lv in set(self.level):
            sizes = {pad[(self.cell_of[b], lv)] for b in range(self.nb) if self.level[b] == lv}
            if len(sizes) > 1:
                return False
        return True


def seeded_params(F, m, NC, blab=None):
    """Parameter assignment of Cable.tla (r, l, ra, cm, v0, gm, em, Iext per compartment, dt)."""
    names = ["r", "l", "ra", "cm", "v0", "gm", "em", "I"]
    par = {n: [] for n in names}
    for c in range(m.ncomps):
        k = m.key(c, blab, NC)
        for i, n in enumerate(names):
            par[n].append(F.rnd(10 * k + i + 1))
    par["dt"] = F.rnd(9001)
    return par


# ----------------------------------------------------------------------------------------
# Cable.tla : SI side
# ----------------------------------------------------------------------------------------
def cable_quantities(F, m, par):
    two_pi = F.mul(F.K(2), F.pi)
    area = [F.mul(two_pi, F.mul(par["r"][c], par["l"][c])) for c in range(m.ncomps)]
    cap = [F.mul(par["cm"][c], area[c]) for c in range(m.ncomps)]
    rh = [F.div(F.mul(par["ra"][c], par["l"][c]), F.mul(two_pi, F.mul(par["r"][c], par["r"][c])))
          for c in range(m.ncomps)]
    return area, cap, rh


def rate_matrix(F, m, par):
    """Extended linear map of Cable.tla's Rate: for compartment rows, Rate(x)[c] = sum_j R[c][j] x_j + q[c]
    (units of Cap * mV/ms); branch-point rows express Kirchhoff's law sum_k Gbp_k (x_k - x_bp) = 0."""
    n, N = m.ncomps, m.nnodes
    zero = F.K(0)
    area, cap, rh = cable_quantities(F, m, par)
    E7, E5 = F.K(10 ** 7), F.K(10 ** 5)
    R = [[zero] * N for _ in range(N)]
    q = [zero] * N

    def couple(i, j, g):  # adds g*(x_j - x_i) to row i
        R[i][j] = F.add(R[i][j], g)
        R[i][i] = F.sub(R[i][i], g)

    for c in range(n):
        for j in m.neigh(c):
            couple(c, j, F.div(E7, F.add(rh[c], rh[j])))
        R[c][c] = F.sub(R[c][c], F.mul(area[c], par["gm"][c]))
        q[c] = F.add(F.mul(area[c], par["em"][c]), F.mul(E5, par["I"][c]))
    for p in m.parent_branches:
        node = n + m.bp_rank[p]
        for k in m.bp_members(p):
            g = F.div(E7, rh[k])
            couple(k, node, g)
            couple(node, k, g)
    return R, q, cap


def bwd_system(F, m, par, h, v):
    """Backward Euler: (diag(Cap) - h R) x = Cap v + h q on compartment rows; Kirchhoff rows for bps."""
    n, N = m.ncomps, m.nnodes
    R, q, cap = rate_matrix(F, m, par)
    A = [[F.K(0)] * N for _ in range(N)]
    b = [F.K(0)] * N
    for i in range(N):
        for j in range(N):
            if i < n:
                A[i][j] = F.neg(F.mul(h, R[i][j]))
            else:
                A[i][j] = R[i][j]
        if i < n:
            A[i][i] = F.add(A[i][i], cap[i])
            b[i] = F.add(F.mul(cap[i], v[i]), F.mul(h, q[i]))
    return A, b


def solve_dense(F, A, b):
    """Gaussian elimination over the field (first nonzero pivot; Z_P needs no pivoting strategy)."""
    N = len(b)
    A = [row[:] for row in A]
    b = b[:]
    for col in range(N):
        piv = None
        for r in range(col, N):
            if not F.is_zero(A[r][col]):
                piv = r
                break
        if piv is None:
            raise ZeroDivisionError("singular")
        A[col], A[piv] = A[piv], A[col]
        b[col], b[piv] = b[piv], b[col]
        inv = F.inv(A[col][col])
        for r in range(col + 1, N):
            if F.is_zero(A[r][col]):
                continue
            f = F.mul(A[r][col], inv)
            for c in range(col, N):
                A[r][c] = F.sub(A[r][c], F.mul(f, A[col][c]))
            b[r] = F.sub(b[r], F.mul(f, b[col]))
    x = [F.K(0)] * N
    for r in range(N - 1, -1, -1):
        s = b[r]
        for c in range(r + 1, N):
            s = F.sub(s, F.mul(A[r][c], x[c]))
        x[r] = F.div(s, A[r][r])
    return x


def bwd_solution(F, m, par, h, v):
    A, b = bwd_system(F, m, par, h, v)
    return solve_dense(F, A, b)[: m.ncomps]


# ----------------------------------------------------------------------------------------
# float64 oracle (numpy): same formulas as above, vectorised; cross-checked against the generic
# functions in harness/c01.py (selfcheck) so that the numpy transcription is not trusted either.
# ----------------------------------------------------------------------------------------
def np_rate_matrix(m, par):
    n, N = m.ncomps, m.nnodes
    r, l, ra, cm = (np.asarray(par[k], dtype=float) for k in ("r", "l", "ra", "cm"))
    gm, em, I = (np.asarray(par[k], dtype=float) for k in ("gm", "em", "I"))
    area = 2 * math.pi * r * l
    cap = cm * area
    rh = ra * l / (2 * math.pi * r * r)
    R = np.zeros((N, N))
    q = np.zeros(N)
    for c in range(n):
        for j in m.neigh(c):
            g = 1e7 / (rh[c] + rh[j])
            R[c, j] += g
            R[c, c] -= g
        R[c, c] -= area[c] * gm[c]
        q[c] = area[c] * em[c] + 1e5 * I[c]
    for p in m.parent_branches:
        node = n + m.bp_rank[p]
        for k in m.bp_members(p):
            g = 1e7 / rh[k]
            R[k, node] += g
            R[k, k] -= g
            R[node, k] += g
            R[node, node] -= g
    return R, q, cap


def np_extend(m, par, x):
    """Append the branch-point voltages (Cable.tla Xbp) to a compartment voltage vector."""
    r, l, ra = (np.asarray(par[k], dtype=float) for k in ("r", "l", "ra"))
    rh = ra * l / (2 * math.pi * r * r)
    out = list(x)
    for p in m.parent_branches:
        ks = m.bp_members(p)
        g = np.array([1e7 / rh[k] for k in ks])
        out.append(float(np.dot(g, np.asarray(x)[ks]) / g.sum()))
    return np.asarray(out)


def np_bwd_system(m, par, h, v):
    n, N = m.ncomps, m.nnodes
    R, q, cap = np_rate_matrix(m, par)
    A = np.zeros((N, N))
    b = np.zeros(N)
    A[:n] = -h * R[:n]
    A[:n, :n] += np.diag(cap)
    b[:n] = cap * np.asarray(v, dtype=float) + h * q[:n]
    A[n:] = R[n:]
    return A, b


def row_residuals(A, b, x):
    """Row-wise relative residual |Ax-b|_i / (sum_j |A_ij||x_j| + |b_i|)."""
    res = A @ x - b
    scale = np.abs(A) @ np.abs(x) + np.abs(b)
    scale[scale == 0] = 1.0
    return np.abs(res) / scale


# ----------------------------------------------------------------------------------------
# complex-capable oracle simulation (C05): the same formulas as np_rate_matrix, any numpy dtype.
# A complex step h*1j on a parameter gives d(loss)/d(parameter) = Im(loss)/h to round-off: an independent
# forward-mode differentiation of the SPECIFICATION's own map (no subtraction error, no step-size tuning).
# ----------------------------------------------------------------------------------------
def cx_rate_matrix(m, par):
    n, N = m.ncomps, m.nnodes
    r, l, ra, cm, gm, em = (np.asarray(par[k], dtype=complex) for k in ("r", "l", "ra", "cm", "gm", "em"))
    area = 2 * math.pi * r * l
    cap = cm * area
    rh = ra * l / (2 * math.pi * r * r)
    R = np.zeros((N, N), dtype=complex)
    q = np.zeros(N, dtype=complex)
    for c in range(n):
        for j in m.neigh(c):
            g = 1e7 / (rh[c] + rh[j])
            R[c, j] += g
            R[c, c] -= g
        R[c, c] -= area[c] * gm[c]
        q[c] = area[c] * em[c]
    for p in m.parent_branches:
        node = n + m.bp_rank[p]
        for k in m.bp_members(p):
            g = 1e7 / rh[k]
            R[k, node] += g
            R[k, k] -= g
            R[node, k] += g
            R[node, node] -= g
    return R, q, cap


def cx_simulate(m, par, stim, dt, nsteps, scheme):
    """Recordings (nsteps+1, n) of the specification's scheme (bwd_euler / crank_nicolson); stim[t] = point currents (nA)
    acting in step t+1."""
    n, N = m.ncomps, m.nnodes
    R, q, cap = cx_rate_matrix(m, par)
    h = dt if scheme == "bwd_euler" else dt / 2
    A = np.zeros((N, N), dtype=complex)
    A[:n] = -h * R[:n]
    A[:n, :n] += np.diag(cap)
    A[n:] = R[n:]
    v = np.asarray(par["v0"], dtype=complex)
    out = [v]
    for t in range(nsteps):
        b = np.zeros(N, dtype=complex)
        b[:n] = cap * v + h * (q[:n] + 1e5 * np.asarray(stim[t], dtype=complex))
        x = np.linalg.solve(A, b)[:n]
        v = x if scheme == "bwd_euler" else 2 * x - v
        out.append(v)
    return np.stack(out)

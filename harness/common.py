"""Shared machinery: tiers/seeds, TLC runner, evidence files, violations and known findings.

Exit-code contract of every check (see DESIGN.md section 6):
  0  property held on everything explored (KNOWN-FINDING lines allowed)
  1  violation not listed in known_findings.json; a line
     `VIOLATION property=<id> replay=<path>` is printed
  2  machinery failure (TLC crash, evaluator != TLC, vacuity guard) - never a verdict
"""
import collections
import json
import os
import re
import shutil
import subprocess
import sys
import time

ROOT = os.path.dirname(os.path.dirname(os.path.abspath(__file__)))
SPEC = os.path.join(ROOT, "spec")
# one scratch directory per check process (several checks may run at the same time); removed at exit
WORK = os.environ.get("VERIF_WORK") or os.path.join(ROOT, ".work", "r%d" % os.getpid())
os.environ["VERIF_WORK"] = WORK
EVID = os.path.join(ROOT, "evidence")
REPLAYS = os.path.join(ROOT, "replays")
if os.path.realpath(os.environ.get("VERIF_REPO", "/repo")) != "/repo":
    # a run against another tree (seeded changes) must not overwrite the evidence of /repo itself
    _alt = os.path.join(ROOT, ".work", "alt_" + os.path.basename(os.path.realpath(os.environ["VERIF_REPO"])))
    EVID, REPLAYS = os.path.join(_alt, "evidence"), os.path.join(_alt, "replays")
REPO = os.environ.get("VERIF_REPO", "/repo")
PY = "/venv/bin/python"
NCPU = int(os.environ.get("VERIF_CPUS", "16"))


def seed():
    try:
        return int(os.environ.get("VERIF_SEED", "0"))
    except ValueError:
        return 0


def tier():
    t = os.environ.get("VERIF_TIER", "quick")
    return t if t in ("quick", "thorough") else "quick"


class MachineryError(Exception):
    pass


def workdir(name):
    d = os.path.join(WORK, name)
    shutil.rmtree(d, ignore_errors=True)
    os.makedirs(d, exist_ok=True)
    return d


def child_env(extra=None):
    env = dict(os.environ)
    env["PYTHONPATH"] = REPO + os.pathsep + ROOT
    env["PYTHONHASHSEED"] = "0"
    env["JAXLEY_VERIF"] = "1"
    env["JAX_PLATFORMS"] = "cpu"
    env["JAX_ENABLE_X64"] = "1"
    env.setdefault("XLA_FLAGS", "--xla_cpu_multi_thread_eigen=false intra_op_parallelism_threads=1")
    env["OMP_NUM_THREADS"] = "1"
    env["OPENBLAS_NUM_THREADS"] = "1"
    env["MKL_NUM_THREADS"] = "1"
    if extra:
        env.update({k: str(v) for k, v in extra.items()})
    return env


# --------------------------------------------------------------------------------------
# TLC
# --------------------------------------------------------------------------------------
class TlcResult:
    def __init__(self, out, rc, wall):
        self.out = out
        self.rc = rc
        self.wall = wall
        m = re.search(r"(\d+) states generated, (\d+) distinct states found", out)
        self.generated = int(m.group(1)) if m else 0
        self.distinct = int(m.group(2)) if m else 0
        self.violated = None
        m = re.search(r"Invariant (\w+) is violated", out)
        if m:
            self.violated = m.group(1)
        m = re.search(r"Action property (\w+) is violated", out)
        if m:
            self.violated = m.group(1)
        if "Temporal properties were violated" in out:
            self.violated = self.violated or "temporal"
        self.ok = rc == 0 and "Model checking completed. No error has been found." in out
        self.postcondition_failed = "POSTCONDITION" in out and "violated" in out

    def coverage(self):
        """action name -> (distinct, total) from `-coverage 1` output."""
        cov = {}
        for m in re.finditer(r"<(\w+) line \d+, col \d+ to line \d+, col \d+ of module (\w+)(?: \([\d ]+\))?>: (\d+):(\d+)", self.out):
            name = m.group(1)
            d, t = int(m.group(3)), int(m.group(4))
            pd, pt = cov.get(name, (0, 0))
            cov[name] = (pd + d, pt + t)
        return cov

    def printed(self, tag):
        """Values PrintT'ed as <<"tag", ...>> (one per line)."""
        res = []
        for line in self.out.splitlines():
            if line.startswith('<<"%s"' % tag):
                res.append(line)
        return sorted(res)           # the workers' output order is schedule dependent


def write_cfg(path, constants=None, init="Init", next_="Next", spec=None, invariants=(), properties=(),
              constraints=(), action_constraints=(), view=None, postcondition=None, deadlock=False, symmetry=None):
    lines = []
    if spec:
        lines.append("SPECIFICATION %s" % spec)
    else:
        lines.append("INIT %s" % init)
        lines.append("NEXT %s" % next_)
    if constants:
        lines.append("CONSTANTS")
        for k, v in constants.items():
            lines.append("  %s = %s" % (k, tla_value(v)))
    for i in invariants:
        lines.append("INVARIANT %s" % i)
    for p in properties:
        lines.append("PROPERTY %s" % p)
    for c in constraints:
        lines.append("CONSTRAINT %s" % c)
    for c in action_constraints:
        lines.append("ACTION_CONSTRAINT %s" % c)
    if view:
        lines.append("VIEW %s" % view)
    if postcondition:
        lines.append("POSTCONDITION %s" % postcondition)
    lines.append("CHECK_DEADLOCK %s" % ("TRUE" if deadlock else "FALSE"))
    with open(path, "w") as f:
        f.write("\n".join(lines) + "\n")


def tla_value(v):
    if isinstance(v, bool):
        return "TRUE" if v else "FALSE"
    if isinstance(v, int):
        return str(v)
    if isinstance(v, str):
        return v  # already TLA+ syntax (quote strings yourself)
    if isinstance(v, (list, tuple)):
        return "<<" + ", ".join(tla_value(x) for x in v) + ">>"
    if isinstance(v, (set, frozenset)):
        return "{" + ", ".join(tla_value(x) for x in sorted(v)) + "}"
    raise TypeError(v)


def run_tlc(module, cfg_path, name, workers=None, timeout=1500, env=None, extra=(), dump=None, coverage=False,
            simulate=None, depth=None, tlc_seed=None, deque=False, ok_rcs=(0,), tolerate_eval_errors=False):
    """Run TLC on spec/<module>.tla in a scratch metadir under .work/.  Returns TlcResult."""
    wd = os.path.join(WORK, "tlc_" + name)
    shutil.rmtree(wd, ignore_errors=True)
    os.makedirs(wd, exist_ok=True)
    # -fp 1: a fixed fingerprint polynomial, so that the state ids of dumped graphs (and every sample drawn from them)
    # are the same in every run with the same seed
    cmd = ["timeout", str(timeout), "tlc", "-fp", "1", "-workers", str(workers or NCPU), "-metadir", wd,
           "-noGenerateSpecTE", "-config", cfg_path]
    if coverage:
        cmd += ["-coverage", "1"]
    if dump:
        cmd += ["-dump", "dot,actionlabels", dump]
    if simulate:
        cmd += ["-simulate", simulate]
    if depth:
        cmd += ["-depth", str(depth)]
    if tlc_seed is not None:
        cmd += ["-seed", str(tlc_seed)]
    cmd += list(extra)
    cmd.append(module + ".tla")
    e = dict(os.environ)
    if env:
        e.update({k: str(v) for k, v in env.items()})
    if deque:
        e["JAVA_TOOL_OPTIONS"] = "-Dtlc2.tool.queue.IStateQueue=StateDeque"
    t0 = time.time()
    p = subprocess.run(cmd, cwd=SPEC, env=e, stdout=subprocess.PIPE, stderr=subprocess.STDOUT, text=True)
    res = TlcResult(p.stdout, p.returncode, time.time() - t0)
    shutil.rmtree(wd, ignore_errors=True)
    # TLC leaves *_TTrace / states dirs only in metadir; nothing else to clean.
    if p.returncode == 124:
        raise MachineryError("TLC timed out after %ss on %s" % (timeout, module))
    if "Parsing or semantic analysis failed" in p.stdout:
        raise MachineryError("TLC failed on %s:\n%s" % (module, p.stdout[-3000:]))
    if tolerate_eval_errors:
        return res          # trace validation: a logged state TLC cannot evaluate is decided by the caller
    if ("Error: TLC threw an unexpected exception" in p.stdout
            or "java.lang." in p.stdout and "Exception" in p.stdout and res.violated is None and not res.ok):
        raise MachineryError("TLC failed on %s:\n%s" % (module, p.stdout[-3000:]))
    return res


# --------------------------------------------------------------------------------------
# TLA+ value parser (dump labels, PrintT output)
# --------------------------------------------------------------------------------------
class _P:
    def __init__(self, s):
        self.s = s
        self.i = 0

    def ws(self):
        while self.i < len(self.s) and self.s[self.i] in " \t\r\n":
            self.i += 1

    def peek(self, t):
        self.ws()
        return self.s.startswith(t, self.i)

    def eat(self, t):
        self.ws()
        if not self.s.startswith(t, self.i):
            raise ValueError("expected %r at %d: %r" % (t, self.i, self.s[self.i:self.i + 40]))
        self.i += len(t)

    def value(self):
        self.ws()
        v = self.atom()
        # function constructors  a :> b @@ c :> d   and intervals a..b
        self.ws()
        if self.peek(".."):
            self.eat("..")
            hi = self.atom()
            return frozenset(range(v, hi + 1))
        if self.peek(":>"):
            d = {}
            k = v
            while True:
                self.eat(":>")
                d[k] = self.atom_iv()
                if self.peek("@@"):
                    self.eat("@@")
                    k = self.atom()
                else:
                    break
            return d
        return v

    def atom_iv(self):
        v = self.atom()
        if self.peek(".."):
            self.eat("..")
            hi = self.atom()
            return frozenset(range(v, hi + 1))
        return v

    def atom(self):
        self.ws()
        c = self.s[self.i]
        if self.peek("<<"):
            self.eat("<<")
            items = []
            if self.peek(">>"):
                self.eat(">>")
                return tuple(items)
            while True:
                items.append(self.value())
                if self.peek(","):
                    self.eat(",")
                else:
                    break
            self.eat(">>")
            return tuple(items)
        if c == "{":
            self.eat("{")
            items = []
            if self.peek("}"):
                self.eat("}")
                return frozenset()
            while True:
                items.append(self.value())
                if self.peek(","):
                    self.eat(",")
                else:
                    break
            self.eat("}")
            return frozenset(_hashable(x) for x in items)
        if c == "[":
            self.eat("[")
            d = {}
            while True:
                self.ws()
                m = re.compile(r"\w+").match(self.s, self.i)
                key = m.group(0)
                self.i = m.end()
                self.eat("|->")
                d[key] = self.value()
                if self.peek(","):
                    self.eat(",")
                else:
                    break
            self.eat("]")
            return d
        if c == "(":
            self.eat("(")
            v = self.value()
            self.eat(")")
            return v
        if c == '"':
            j = self.i + 1
            out = []
            while self.s[j] != '"':
                if self.s[j] == "\\":
                    j += 1
                out.append(self.s[j])
                j += 1
            self.i = j + 1
            return "".join(out)
        m = re.compile(r"-?\d+").match(self.s, self.i)
        if m:
            self.i = m.end()
            return int(m.group(0))
        m = re.compile(r"\w+").match(self.s, self.i)
        if m:
            self.i = m.end()
            w = m.group(0)
            if w == "TRUE":
                return True
            if w == "FALSE":
                return False
            return w
        raise ValueError("cannot parse at %d: %r" % (self.i, self.s[self.i:self.i + 40]))


def _hashable(x):
    if isinstance(x, dict):
        return HDict(x)
    return x


class HDict(dict):
    def __hash__(self):
        return hash(tuple(sorted((k, _hashable(v)) for k, v in self.items())))


def parse_tla(s):
    p = _P(s)
    v = p.value()
    p.ws()
    if p.i != len(p.s):
        raise ValueError("trailing input at %d: %r" % (p.i, p.s[p.i:p.i + 40]))
    return v


def parse_state_label(label):
    """Parse a dot node label `/\\ a = 1\\n/\\ b = {..}` into a dict of variable -> value."""
    lab = label.replace("\\n", "\n").replace('\\"', '"').replace("\\\\", "\\")
    parts = re.split(r"(?:^|\n)/\\ ", lab)
    st = {}
    for part in parts:
        part = part.strip()
        if not part:
            continue
        k, v = part.split(" = ", 1)
        st[k.strip()] = parse_tla(v.strip())
    return st


def parse_dot(path):
    """Return (nodes: id -> state dict, edges: [(src, dst, action_label)], init ids)."""
    nodes, edges, inits = {}, [], []
    with open(path) as f:
        for line in f:
            m = re.match(r'^(-?\d+) \[label="(.*?)"(,style = filled\]|,tooltip=".*"\];?)$', line.rstrip("\n"))
            if m:
                nodes[m.group(1)] = parse_state_label(m.group(2))
                if m.group(3).startswith(",style"):
                    inits.append(m.group(1))
                continue
            m = re.match(r'^(-?\d+) -> (-?\d+) \[label="(.*?)",color', line)
            if m:
                edges.append((m.group(1), m.group(2), m.group(3).replace('\\"', '"')))
    # canonical order (TLC's workers write the file in a schedule-dependent order)
    nodes = {k: nodes[k] for k in sorted(nodes)}
    edges.sort(key=lambda e: (e[0], e[2], e[1]))
    inits.sort()
    return nodes, edges, inits


def parse_action_label(label):
    """`Insert("A","all")` -> ("Insert", ["A", "all"]) ; `Next` -> ("Next", [])."""
    m = re.match(r"^(\w+)(?:\((.*)\))?$", label.strip(), re.S)
    if not m:
        return label, []
    name, args = m.group(1), m.group(2)
    if args is None or args.strip() == "":
        return name, []
    return name, list(parse_tla("<<" + args + ">>"))


# --------------------------------------------------------------------------------------
# known findings, violations, evidence
# --------------------------------------------------------------------------------------
def load_findings():
    p = os.path.join(ROOT, "known_findings.json")
    if not os.path.exists(p):
        return {"findings": [], "fixed": []}
    with open(p) as f:
        return json.load(f)


class Check:
    """Collects the verdict and the evidence of one check run."""

    def __init__(self, prop, level):
        self.prop = prop
        self.level = level
        self.t0 = time.time()
        self.cov = {"samples": []}
        self.assumptions = []
        self.violations = 0
        self.known = {}
        self._findings = [f for f in load_findings().get("findings", []) if f.get("property") == prop]
        d = os.path.join(REPLAYS, prop)
        if os.environ.get("VERIF_MERGE_EVIDENCE") == "1" and os.path.isdir(d):
            # second stage of a two-stage check: keep the first stage's replay files and continue their numbering
            self._n = len([f for f in os.listdir(d) if f.startswith("violation_")])
        else:
            shutil.rmtree(d, ignore_errors=True)
            self._n = 0
        self.sigs = {}

    # ---- coverage counters
    def add(self, key, n=1):
        self.cov[key] = int(self.cov.get(key, 0)) + int(n)

    def set(self, key, v):
        self.cov[key] = v

    def sample(self, s, cap=6):
        if len(self.cov["samples"]) < cap:
            self.cov["samples"].append(s)

    def assume(self, *a):
        for x in a:
            if x not in self.assumptions:
                self.assumptions.append(x)

    # ---- verdicts
    def match_finding(self, sig):
        """sig: dict of input-describing fields.  A finding matches if all of its `match` entries equal."""
        for f in self._findings:
            m = f.get("match", {})
            if m and all(sig.get(k) == v for k, v in m.items()):
                return f
        return None

    def violation(self, sig, detail):
        """Report a violation (or a known finding if its input signature is listed)."""
        f = self.match_finding(sig)
        if f is not None:
            n = self.known.get(f["id"], 0)
            self.known[f["id"]] = n + 1
            if n == 0:
                print("KNOWN-FINDING: property=%s %s (first instance: %s)" % (self.prop, f["what"], json.dumps(sig, sort_keys=True, default=str)[:300]))
            return False
        self.violations += 1
        self._n += 1
        key = json.dumps(sig, sort_keys=True, default=str)
        self.sigs[key] = self.sigs.get(key, 0) + 1
        d = os.path.join(REPLAYS, self.prop)
        os.makedirs(d, exist_ok=True)
        path = os.path.join(d, "violation_%03d.json" % self._n)
        if self._n <= 50:
            with open(path, "w") as fh:
                json.dump({"property": self.prop, "signature": sig, "detail": detail}, fh, indent=1, default=str)
            print("VIOLATION property=%s replay=%s" % (self.prop, path))
            print("   " + json.dumps(sig, sort_keys=True, default=str)[:400])
        return True

    def finish(self, extra_wall=0.0):
        # checks that extend the specification beyond the listed properties (ids X..) keep their records apart
        evid = EVID if not self.prop.startswith("X") else os.path.join(os.path.dirname(EVID), "extras")
        os.makedirs(evid, exist_ok=True)
        cov = dict(self.cov)
        if self.known:
            cov["known_findings_hit"] = self.known
        if self.sigs:
            cov["violation_signatures"] = self.sigs
            print("violations by input signature:")
            for k, n in sorted(self.sigs.items(), key=lambda kv: -kv[1])[:40]:
                print("  %5d  %s" % (n, k[:300]))
        ev = {"property_id": self.prop, "tier": tier(), "seed": seed(), "level": self.level, "coverage": cov,
              "assumptions": self.assumptions, "wall_s": round(time.time() - self.t0 + extra_wall, 2),
              "violations": self.violations}
        with open(os.path.join(evid, self.prop + ".json"), "w") as f:
            json.dump(ev, f, indent=1, default=str)
        return 1 if self.violations else 0


def validate_traces(module, cfg, traces, name, timeout=2400):
    """Run a trace specification over `traces` (one initial state per trace, progress printed as <<"AT", tid, l>>).
    Returns (reached: tid -> last matched position, crashed: set of tids on which TLC itself failed).  A logged state that TLC
    cannot even evaluate (e.g. an index table whose rows have the wrong width) makes TLC stop; the traces are then validated
    one by one so that the others are still decided, and the unreadable one is reported by the caller as rejected."""
    def one(trs, nm, workers):
        tf = os.path.join(WORK, nm + ".json")
        with open(tf, "w") as f:
            json.dump(trs, f)
        res = run_tlc(module, cfg, nm, workers=workers, timeout=timeout, env={"TRACE_FILE": tf}, tolerate_eval_errors=True)
        reached = collections.Counter()
        for line in res.printed("AT"):
            m = re.match(r'<<"AT", (\d+), (\d+)>>', line)
            reached[int(m.group(1))] = max(reached[int(m.group(1))], int(m.group(2)))
        return res, reached
    res, reached = one(traces, name, NCPU)
    if res.ok:
        return reached, set()
    if "Parsing or semantic analysis failed" in res.out or "Cannot find source file" in res.out:
        raise MachineryError("trace validation failed to run:\n" + res.out[-2000:])
    reached, crashed = collections.Counter(), set()
    for t, tr in enumerate(traces, start=1):
        r1, got = one([tr], "%s_single" % name, 1)
        reached[t] = got.get(1, 0)
        if not r1.ok:
            if "Parsing or semantic analysis failed" in r1.out:
                raise MachineryError("trace validation failed to run:\n" + r1.out[-2000:])
            crashed.add(t)
    return reached, crashed


def run_workers(module, jobs, nproc=None, env=None, timeout=3000):
    """Run `python -m harness.<module> <jobfile> <outfile>` in parallel worker processes.
    jobs: list of JSON-able job lists (one per process).  Returns list of parsed outputs."""
    nproc = nproc or NCPU
    wd = os.path.join(WORK, "jobs_" + module.replace(".", "_"))
    shutil.rmtree(wd, ignore_errors=True)
    os.makedirs(wd, exist_ok=True)
    procs = []
    pending = list(enumerate(jobs))
    results = [None] * len(jobs)
    running = []
    e = child_env(env)

    def launch(i, job):
        jf = os.path.join(wd, "job_%d.json" % i)
        of = os.path.join(wd, "out_%d.json" % i)
        with open(jf, "w") as f:
            json.dump(job, f)
        lf = open(os.path.join(wd, "log_%d.txt" % i), "w")
        p = subprocess.Popen([PY, "-m", "harness." + module, jf, of], cwd=ROOT, env=e, stdout=lf, stderr=subprocess.STDOUT)
        return (i, p, of, lf, time.time())

    while pending or running:
        while pending and len(running) < nproc:
            i, job = pending.pop(0)
            running.append(launch(i, job))
        time.sleep(0.05)
        still = []
        for (i, p, of, lf, t0) in running:
            rc = p.poll()
            if rc is None:
                if time.time() - t0 > timeout:
                    p.kill()
                    raise MachineryError("worker %s job %d timed out" % (module, i))
                still.append((i, p, of, lf, t0))
                continue
            lf.close()
            if rc != 0 or not os.path.exists(of):
                log = open(os.path.join(wd, "log_%d.txt" % i)).read()[-3000:]
                raise MachineryError("worker %s job %d failed rc=%s\n%s" % (module, i, rc, log))
            with open(of) as f:
                results[i] = json.load(f)
        running = still
    shutil.rmtree(wd, ignore_errors=True)
    return results


def chunks(lst, n):
    """Split lst into n roughly equal interleaved chunks (drop empty)."""
    out = [lst[i::n] for i in range(n)]
    return [c for c in out if c]


def main_wrapper(fn):
    try:
        rc = fn()
    except MachineryError as e:
        print("MACHINERY-FAILURE: %s" % e)
        rc = 2
    except SystemExit:
        raise
    except BaseException as e:
        # an exception of the harness itself is never a verdict about the code
        import traceback
        traceback.print_exc()
        print("MACHINERY-FAILURE: %s: %s" % (type(e).__name__, str(e)[:300]))
        rc = 2
    finally:
        shutil.rmtree(WORK, ignore_errors=True)
    sys.exit(rc)

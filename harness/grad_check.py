"""C05: gradients through a simulation (structure: TLC's DEff of JaxleyModule.tla; numbers: complex-step oracle).

usage: python -m harness.grad_check            (driver)
       python -m harness.grad_check <job> <out>   (worker)
"""
import collections
import json
import os
import re
import sys

from harness import common as C
from harness import cable_checks as CC


def worker():
    from harness.jaxsetup import jax, jnp, np, jx, build_forest
    from harness import evaluator as ev, replay_module as rm, replay_cable as rc
    from jaxley.utils.cell_utils import params_to_pstate
    job = json.load(open(sys.argv[1]))
    res = {"jac": 0, "grads": 0, "fd": 0, "refused": 0, "mismatch": []}

    # ---------------- structure: d Eff / d trainable value is the indicator of DEff(i, G) ----------------
    for st in job.get("struct", []):
        with jax.disable_jit():
            ctx = rm.rebuild(job["model"], st["path"])
            cell = ctx.cell
            cell.to_jax()
            params = cell.get_parameters()
            inds = cell.indices_set_by_trainables

            def f(ps):
                pstate = params_to_pstate(ps, inds)
                allp = cell.get_all_parameters(pstate, "jaxley.thomas")
                alls = cell.get_all_states(pstate, allp, 0.25)
                out = {}
                for k in rm.KEYS:
                    src = allp if k in rm.PARAM_KEYS else alls
                    if k in src:
                        out[k] = src[k]
                return out
            try:
                J = jax.jacfwd(f)(params)
            except Exception as e:
                res["mismatch"].append({"kind": "jacobian_raised", "path": st["path"], "err": type(e).__name__ + ": " + str(e)[:150]})
                continue
        res["jac"] += 1
        for i, t in enumerate(st["trains"]):
            key = t["key"]
            rows_of_param = [sorted(int(x) for x in row if int(x) >= 0) for row in np.asarray(inds[i])]
            for okey, Jk in J.items():
                M = np.asarray(Jk[i][key])           # (N, n_params_of_trainable_i)
                for g, rows in enumerate(rows_of_param):
                    want = np.zeros(M.shape[0])
                    if okey == key:
                        w = [v for k_, v in st["jac"][i] if sorted(k_) == rows]
                        if not w:
                            res["mismatch"].append({"kind": "group_not_in_spec", "path": st["path"], "rows": rows})
                            continue
                        want[sorted(w[0])] = 1.0
                    if not np.array_equal(np.nan_to_num(M[:, g], nan=0.0), want):
                        res["mismatch"].append({"kind": "jacobian", "path": st["path"], "trainable": i, "key": key, "output": okey, "group": rows,
                                                "got_rows": [int(x) for x in np.where(np.nan_to_num(M[:, g]) != 0)[0]],
                                                "want_rows": [int(x) for x in np.where(want != 0)[0]]})

    # ---------------- numbers: jax.grad vs complex-step derivative of the specification's scheme ----------------
    for it in job.get("numeric", []):
        cfg = {"parents": it["parents"], "ncomp": it["ncomp"], "id": it["k"]}
        rng = np.random.default_rng([job["seed"], it["k"]])
        m = ev.Morph(cfg["parents"], cfg["ncomp"])
        par = rc.draw_params(m, rng)
        n = m.ncomps
        nsteps, dt = it["nsteps"], it["dt"]
        key, pattern, solver, vs, layout = it["key"], it["pattern"], it["solver"], it["vs"], it["layout"]
        sig = {"key": key, "pattern": pattern, "solver": solver, "voltage_solver": vs, "checkpointing": bool(layout)}
        try:
            mod = rc.build(cfg, par)
            stim_rows = [int(i) for i in np.where(par["I"] != 0)[0]]
            stim = np.zeros((nsteps, n))
            for i in stim_rows:
                stim[:, i] = par["I"][i] * (1.0 + 0.3 * np.arange(nsteps))
                mod.select(nodes=[i]).stimulate(jnp.asarray(stim[:, i]), verbose=False)
            mod.record("v", verbose=False)
            kw = dict(delta_t=dt, solver=solver, voltage_solver=vs, t_max=(nsteps - 1) * dt if not stim_rows else None)
            if layout:
                kw["checkpoint_lengths"] = layout
            okey = {"radius": "r", "length": "l", "axial_resistivity": "ra", "capacitance": "cm", "v": "v0",
                    "Leak_gLeak": "g", "Leak_eLeak": "e"}.get(key)
            if key in ("stim_amp", "data_set"):
                if key == "stim_amp":
                    rows = stim_rows[:1] or [0]
                    base = np.asarray([1.0 + 0.5 * t for t in range(nsteps)])
                    mod.delete_stimuli()
                    stim2 = np.zeros((nsteps, n))

                    # the gradient with respect to EVERY sample of a data-fed stimulus, some of which are exactly zero
                    # (the off-period of a step current): d loss / d sample does not vanish where the sample does
                    theta0 = 0.7 * base
                    theta0[1::3] = 0.0

                    def loss(x):
                        ds = mod.select(nodes=rows).data_stimulate(x, None)
                        return jnp.sum(jx.integrate(mod, data_stimuli=ds, **{**kw, "t_max": None}) ** 2)
                    theta = jnp.asarray(theta0)
                    g = np.atleast_1d(np.asarray(jax.grad(loss)(theta)))

                    def oracle_t(t, h):
                        s2 = stim2.astype(complex)
                        s2[:, rows[0]] = theta0
                        s2[t, rows[0]] += h
                        return np.sum(ev.cx_simulate(m, par, s2, dt, nsteps, solver) ** 2)
                    groups = [rows]
                else:
                    br = m.nb - 1
                    rows = list(range(m.offs[br], m.offs[br + 1]))

                    def loss(x):
                        ps = mod.select(nodes=rows).data_set("radius", x, None)
                        return jnp.sum(jx.integrate(mod, param_state=ps, **kw) ** 2)
                    theta = jnp.asarray(float(np.mean(par["r"][rows])))
                    g = np.atleast_1d(np.asarray(jax.grad(loss)(theta)))

                    def oracle(h):
                        p2 = {k_: np.asarray(v_, dtype=complex) for k_, v_ in par.items() if k_ not in ("leak",)}
                        p2["r"][rows] = complex(theta) + h
                        return np.sum(ev.cx_simulate(m, p2, stim, dt, nsteps, solver) ** 2)
                    groups = [rows]
                if key == "stim_amp":
                    want = np.asarray([np.imag(oracle_t(t, 1e-30j)) / 1e-30 for t in range(nsteps)])
                else:
                    want = np.asarray([np.imag(oracle(1e-30j)) / 1e-30])
            else:
                view = {"comp": lambda: mod.comp("all") if len(mod.nodes) else mod, "branch": lambda: mod.branch("all"),
                        "module": lambda: mod,
                        "two_branches": lambda: mod.select(nodes=list(range(m.offs[0], m.offs[1])) + list(range(m.offs[m.nb - 1], m.offs[m.nb])))}[pattern]()
                if key.startswith("Leak"):
                    view = {"comp": mod.Leak.comp("all"), "branch": mod.Leak.branch("all"), "module": mod.Leak,
                            "two_branches": mod.Leak.branch([0, m.nb - 1])}[pattern] if False else view
                view.make_trainable(key, verbose=False)
                params = mod.get_parameters()
                inds = np.asarray(mod.indices_set_by_trainables[0])
                groups = [[int(x) for x in row if int(x) >= 0] for row in inds]

                def loss(p):
                    return jnp.sum(jx.integrate(mod, params=p, **kw) ** 2)
                g = np.asarray(jax.grad(loss)(params)[0][key])
                theta = np.asarray(params[0][key])
                want = []
                for gi, rows in enumerate(groups):
                    p2 = {k_: np.asarray(v_, dtype=complex) for k_, v_ in par.items() if k_ != "leak"}
                    # the simulation uses the trainable values (group means) on ALL groups; the complex step goes to group gi
                    tgt = p2["g"].copy() if okey == "g" else p2["e"].copy() if okey == "e" else p2[okey]
                    for gj, rows_j in enumerate(groups):
                        tgt[rows_j] = theta[gj] + (1e-30j if gj == gi else 0.0)
                    if okey in ("g", "e"):
                        gg = tgt if okey == "g" else p2["g"]
                        ee = tgt if okey == "e" else p2["e"]
                        p2["gm"], p2["em"] = 1000.0 * gg, 1000.0 * gg * ee
                    want.append(np.imag(np.sum(ev.cx_simulate(m, p2, stim, dt, nsteps, solver) ** 2)) / 1e-30)
                want = np.asarray(want)
        except Exception as e:
            msg = type(e).__name__ + ": " + str(e)[:160]
            if "indexer only supports" in msg or "not implemented" in msg.lower():
                res["refused"] += 1
            else:
                res["mismatch"].append({**sig, "kind": "raised", "cfg": cfg, "err": msg})
            continue
        res["grads"] += 1
        scale = float(np.max(np.abs(want))) + 1e-300
        err = float(np.max(np.abs(g - want))) / scale
        if not (err <= 1e-7) or g.shape != want.shape:
            res["mismatch"].append({**sig, "kind": "gradient", "cfg": cfg, "groups": groups, "grad": g.tolist(), "oracle": want.tolist(),
                                    "relerr": err})

    # ---------------- channels with exp: reverse mode vs forward mode vs (reported) extrapolated finite differences ----------------
    for it in job.get("hh", []):
        from jaxley.channels import HH
        comp = jx.Compartment()
        cell = jx.Cell([jx.Branch(comp, 2), jx.Branch(comp, 1), jx.Branch(comp, 2)], parents=[-1, 0, 0])
        if it.get("chan") == "NaK":
            from jaxley.channels import Na, K, Leak
            cell.insert(Na()); cell.insert(K()); cell.insert(Leak())
        else:
            cell.insert(HH())
        if it.get("v0") is not None:
            cell.set("v", float(it["v0"]))          # exactly on a removable singularity of a rate function
        if it.get("net"):
            # synaptic parameters: three cells, two synapse types, fan-in; the parameter is shared by the type or one per synapse
            from jaxley.connect import connect
            from jaxley.synapses import IonotropicSynapse, TestSynapse
            cell = jx.Network([cell, cell, cell])
            connect(cell.cell(0).branch(0).comp(0), cell.cell(1).branch(2).comp(1), IonotropicSynapse())
            connect(cell.cell(2).branch(1).comp(0), cell.cell(1).branch(0).comp(0), TestSynapse())
            connect(cell.cell(0).branch(2).comp(0), cell.cell(1).branch(2).comp(1), IonotropicSynapse())
            cell.cell(0).branch(0).comp(0).stimulate(jx.step_current(0.05, 0.3, 2.0, 0.025, 0.6), verbose=False)
            cell.cell(2).branch(0).comp(0).stimulate(jx.step_current(0.1, 0.3, 1.5, 0.025, 0.6), verbose=False)
            cell.IonotropicSynapse.set("IonotropicSynapse_gS", 5e-3)
            cell.TestSynapse.set("TestSynapse_gC", 4e-3)
            cell.cell(1).record("v", verbose=False)
            ty = cell.IonotropicSynapse if it["key"].startswith("Iono") else cell.TestSynapse
            (ty.edge("all") if it["view"] == "edge" else ty).make_trainable(it["key"], verbose=False)
        else:
            cell.branch(0).comp(0).stimulate(jx.step_current(0.05, 0.2, 0.3, 0.025, 0.4), verbose=False)
            cell.record("v", verbose=False)
            getattr(cell, it["view"])("all").make_trainable(it["key"], verbose=False) if it["view"] != "module" else cell.make_trainable(it["key"], verbose=False)
        params = cell.get_parameters()
        kw = dict(voltage_solver=it["vs"], solver=it["solver"])
        if it["layout"]:
            kw["checkpoint_lengths"] = it["layout"]

        def loss(p):
            return jnp.sum(jx.integrate(cell, params=p, **kw)[:, ::4] ** 2) * 1e-3
        try:
            g_rev = np.asarray(jax.grad(loss)(params)[0][it["key"]])
            flat0 = np.asarray(params[0][it["key"]])

            def lossflat(x):
                return loss([{it["key"]: x}])
            if it["vs"] == "jax.sparse":
                # JAX has no batching rule for the sparse solve: one forward-mode pass per coordinate instead of jacfwd's vmap
                eye = np.eye(len(flat0))
                g_fwd = np.asarray([float(jax.jvp(lossflat, (jnp.asarray(flat0),), (jnp.asarray(eye[j]),))[1]) for j in range(len(flat0))])
            else:
                g_fwd = np.asarray(jax.jacfwd(lossflat)(jnp.asarray(flat0)))
        except Exception as e:
            res["mismatch"].append({"kind": "raised", "key": it["key"], "voltage_solver": it["vs"], "err": type(e).__name__ + ": " + str(e)[:150]})
            continue
        res["grads"] += 1
        if not (np.isfinite(g_rev).all() and np.isfinite(g_fwd).all()):
            res["mismatch"].append({"kind": "gradient_not_finite", "key": it["key"], "voltage_solver": it["vs"], "solver": it["solver"],
                                    "checkpointing": bool(it["layout"]), "v0": it.get("v0"), "rev": g_rev.tolist(), "fwd": g_fwd.tolist()})
            continue
        sc = float(np.max(np.abs(g_fwd))) + 1e-300
        if float(np.max(np.abs(g_rev - g_fwd))) / sc > 1e-8:
            res["mismatch"].append({"kind": "reverse_vs_forward_mode", "key": it["key"], "voltage_solver": it["vs"], "solver": it["solver"],
                                    "checkpointing": bool(it["layout"]), "rev": g_rev.tolist(), "fwd": g_fwd.tolist()})
        # Richardson-extrapolated central differences: reported; decisive only when its own error estimate is tiny
        x0 = flat0.astype(float)
        fd = np.zeros_like(x0)
        est = np.zeros_like(x0)
        for j in range(len(x0)):
            d = []
            for hrel in (1e-3, 5e-4):
                hh = hrel * max(abs(x0[j]), 1e-3)
                e_ = np.zeros_like(x0)
                e_[j] = hh
                d.append((float(lossflat(jnp.asarray(x0 + e_))) - float(lossflat(jnp.asarray(x0 - e_)))) / (2 * hh))
            fd[j] = (4 * d[1] - d[0]) / 3
            est[j] = abs(d[1] - d[0])
        res["fd"] += 1
        bad = (np.abs(fd - g_rev) > 1e-4 * sc + 10 * est) & (est < 1e-6 * sc)
        if bad.any():
            res["mismatch"].append({"kind": "finite_differences", "key": it["key"], "voltage_solver": it["vs"], "grad": g_rev.tolist(),
                                    "fd": fd.tolist(), "fd_error_estimate": est.tolist()})
    json.dump(res, open(sys.argv[2], "w"), default=str)


def main():
    import random
    chk = C.Check("C05", "exploration")
    quick = C.tier() == "quick"
    rnd = random.Random(C.seed())
    # ---- structure from TLC: JaxleyModule.tla DEff ----
    from harness import module_check as MC
    res, dot = MC.tlc_graph("c05", "MC_Grad.cfg", 3)
    if res.violated:
        chk.violation({"tlc_invariant": res.violated}, res.out[-2000:])
        return chk.finish()
    if not res.ok:
        raise C.MachineryError("TLC failed:\n" + res.out[-2000:])
    line = res.printed("MODEL")[0]
    model = json.loads(line[line.index('"{') + 1: line.rindex('}"') + 1].replace('\\"', '"'))
    model["views"] = {k: {"rows": sorted(v["rows"]), "by": v["by"]} for k, v in model["views"].items()}
    nodes, edges, inits = C.parse_dot(dot)
    os.remove(dot)
    adj = collections.defaultdict(list)
    for a, b, l in edges:
        adj[a].append((l, b))
    path = {inits[0]: []}
    q = collections.deque([inits[0]])
    while q:
        a = q.popleft()
        for l, b in adj[a]:
            if b not in path and l != "Integrate":
                path[b] = path[a] + [l]
                q.append(b)
    struct = []
    for nid, st in nodes.items():
        if nid in path and st["trains"] and not st["obs"]:
            trains = [{"key": t["key"], "groups": sorted(sorted(g) for g in t["groups"])} for t in st["trains"]]
            jac = [[[sorted(k), sorted(v)] for k, v in j.items()] for j in st["jac"]]
            struct.append({"path": path[nid], "trains": trains, "jac": jac})
    if len(struct) < 50:
        raise C.MachineryError("only %d states with trainables" % len(struct))
    unequal = [s for s in struct if any(len({len(g) for g in t["groups"]}) > 1 for t in s["trains"])]
    if not unequal:
        raise C.MachineryError("vacuity: no trainable with groups of unequal size")
    if quick:
        struct = rnd.sample(unequal, min(len(unequal), 120)) + rnd.sample(struct, 120)
    # ---- numbers ----
    trees = [c for c in CC.forests(3, 3, True) if len(c[0]) >= 2] + [((0, 0), (2, 2)), ((0, 1, 0, 3), (2, 1, 2, 1))]
    keys = ["radius", "length", "axial_resistivity", "capacitance", "v", "Leak_gLeak", "Leak_eLeak", "stim_amp", "data_set"]
    patterns = ["comp", "branch", "module", "two_branches"]
    combos = []
    k = 0
    for key in keys:
        for pattern in (patterns if key not in ("stim_amp", "data_set") else ["-"]):
            for solver in ("bwd_euler", "crank_nicolson"):
                for vs in ("jaxley.stone", "jaxley.thomas", "jax.sparse"):
                    for layout in (None, [2, 2], [3, 2]):
                        combos.append((key, pattern, solver, vs, layout))
    rnd.shuffle(combos)
    numeric = []
    for (key, pattern, solver, vs, layout) in combos[: (70 if quick else 600)]:
        p, nc = trees[rnd.randrange(len(trees))]
        if key.startswith("Leak") and pattern in ("comp", "branch", "two_branches"):
            pattern = "module"       # Leak is inserted in a random subset: sharing by comp/branch is exercised by the geometric keys
        numeric.append({"k": k, "parents": list(p), "ncomp": list(nc), "key": key, "pattern": pattern, "solver": solver, "vs": vs,
                        "layout": layout, "nsteps": 4, "dt": [0.025, 0.5][k % 2]})
        k += 1
    hh = []
    for key, view in (("HH_gNa", "comp"), ("HH_m", "branch"), ("radius", "branch"), ("HH_eK", "module")):
        for vs in ("jaxley.stone", "jax.sparse"):
            hh.append({"key": key, "view": view, "vs": vs, "solver": "bwd_euler" if len(hh) % 2 == 0 else "crank_nicolson",
                       "layout": [4, 5] if len(hh) % 3 == 0 else None})
    if quick:
        hh = hh[C.seed() % 2::2]
    # synaptic parameters (shared by the type / one per synapse) on a small network with fan-in and two synapse types
    syn = []
    for key, view in (("IonotropicSynapse_gS", "type"), ("IonotropicSynapse_gS", "edge"), ("TestSynapse_gC", "type"),
                      ("IonotropicSynapse_k_minus", "edge"), ("IonotropicSynapse_e_syn", "type")):
        for vs in ("jaxley.stone", "jax.sparse"):
            syn.append({"key": key, "view": view, "vs": vs, "net": True, "solver": "bwd_euler" if len(syn) % 2 == 0 else "crank_nicolson",
                        "layout": [5, 5] if len(syn) % 3 == 0 else None})
    hh += syn[C.seed() % 2::2] if quick else syn
    # voltages exactly on the removable singularities of the rate functions: the derivative exists and must be finite and right
    sing = [{"key": "v", "view": "comp", "vs": "jaxley.stone", "solver": "bwd_euler", "layout": None, "v0": -55.0},
            {"key": "v", "view": "branch", "vs": "jax.sparse", "solver": "crank_nicolson", "layout": [4, 5], "v0": -40.0},
            {"key": "vt", "view": "module", "vs": "jaxley.thomas", "solver": "bwd_euler", "layout": None, "v0": -47.0, "chan": "NaK"},
            {"key": "v", "view": "comp", "vs": "jaxley.stone", "solver": "bwd_euler", "layout": None, "v0": -45.0, "chan": "NaK"}]
    hh += sing[C.seed() % 2::2] if quick else sing
    jobs = []
    nchunks = C.NCPU
    sc, nc_, hc = C.chunks(struct, nchunks), C.chunks(numeric, nchunks), C.chunks(hh, nchunks)
    for i in range(nchunks):
        jobs.append({"model": model, "seed": C.seed(), "struct": sc[i] if i < len(sc) else [], "numeric": nc_[i] if i < len(nc_) else [],
                     "hh": hc[i] if i < len(hc) else []})
    outs = C.run_workers("grad_check", jobs, timeout=3400)
    tot = collections.Counter()
    for o in outs:
        for kk in ("jac", "grads", "fd", "refused"):
            tot[kk] += o[kk]
        for mm in o["mismatch"]:
            chk.violation({kk: mm[kk] for kk in ("kind", "key", "pattern", "solver", "voltage_solver", "checkpointing") if kk in mm}, mm)
    chk.set("evaluations", tot["jac"] + tot["grads"])
    chk.set("distinct_nontrivial", len(unequal) + len({(n_["key"], n_["pattern"], n_["solver"], n_["vs"], str(n_["layout"])) for n_ in numeric}))
    chk.set("jacobian_structures_compared", tot["jac"])
    chk.set("gradients_compared", tot["grads"])
    chk.set("finite_difference_cross_checks", tot["fd"])
    chk.set("refused", tot["refused"])
    chk.set("tlc_states", res.distinct)
    chk.set("rule", "(1) TLC enumerates every history of <= 3 insert/make_trainable calls; DEff(i, G) (the rows whose simulated value is the value "
                    "of group G of trainable i) is part of the state and the real jax.jacfwd of get_all_parameters/get_all_states must be its "
                    "0/1 indicator (groups of unequal size included). (2) jax.grad of a sum-of-squares loss through integrate vs the complex-"
                    "step derivative of the specification's own scheme for key x sharing pattern x solver x backend x checkpoint layout on "
                    "trees from the C01 enumeration, rtol 1e-7. (3) HH cell: reverse vs forward mode, extrapolated finite differences "
                    "(decisive only when their own error estimate is tiny)")
    for n_ in numeric[:3]:
        chk.sample(n_)
    chk.sample({"structure": struct[0]})
    chk.assume("TLC decides the sharing/transposition structure; derivatives through exp rest on JAX's forward mode as the second "
               "opinion (HH cell and synaptic parameters of a three-cell network)", "complex-step differentiation of the numpy oracle (cross-checked against TLC mod p in C01)",
               "finite differences never decide unless their own error estimate is below 1e-6 of the gradient scale")
    return chk.finish()


if __name__ == "__main__":
    if len(sys.argv) == 3:
        worker()
    else:
        C.main_wrapper(main)

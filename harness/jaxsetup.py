"""Import jax/jaxley from the repository's working tree with float64 on CPU."""
import os
import sys
import warnings

REPO = os.environ.get("VERIF_REPO", "/repo")
if REPO not in sys.path:
    sys.path.insert(0, REPO)
os.environ.setdefault("JAX_PLATFORMS", "cpu")
warnings.filterwarnings("ignore")

import jax  # noqa: E402

jax.config.update("jax_enable_x64", True)
jax.config.update("jax_platform_name", "cpu")
import jax.numpy as jnp  # noqa: E402,F401
import numpy as np  # noqa: E402,F401

import jaxley as jx  # noqa: E402

assert os.path.realpath(jx.__file__).startswith(os.path.realpath(REPO)), (
    "jaxley imported from %s, expected the working tree %s" % (jx.__file__, REPO))


def build_forest(parents, ncomp):
    """Module for a forest in Morph.tla's format (1-based parents, 0 = root of a new cell).
    One cell -> jx.Cell, several -> jx.Network."""
    comp = jx.Compartment()
    cells = []
    roots = [b for b, p in enumerate(parents) if p == 0]
    for ci, r0 in enumerate(roots):
        r1 = roots[ci + 1] if ci + 1 < len(roots) else len(parents)
        branches = [jx.Branch(comp, ncomp=int(ncomp[b])) for b in range(r0, r1)]
        par = [-1] + [int(parents[b] - 1 - r0) for b in range(r0 + 1, r1)]
        cells.append(jx.Cell(branches, parents=par))
    if len(cells) == 1:
        return cells[0]
    return jx.Network(cells)


def enable_compile_cache():
    """Share compiled XLA executables between the worker processes of one check (keyed by the HLO,
    so edited source code is recompiled; purely a speed-up)."""
    d = os.path.join(os.path.dirname(os.path.dirname(os.path.abspath(__file__))), ".work", "jaxcache")
    os.makedirs(d, exist_ok=True)
    try:
        jax.config.update("jax_compilation_cache_dir", d)
        jax.config.update("jax_persistent_cache_min_compile_time_secs", 0.0)
        jax.config.update("jax_persistent_cache_min_entry_size_bytes", -1)
    except Exception:
        pass


if os.environ.get("VERIF_JAXCACHE", "1") == "1":
    enable_compile_cache()

"""X01 (not one of the listed properties): Geometry.tla replayed into move / move_to / rotate /
compute_compartment_centers / distance of the real module.

usage: python -m harness.geometry_check            (driver)
       python -m harness.geometry_check <job> <out>   (worker)
"""
import json
import os
import sys

from harness import common as C

P0 = [[[0, 0, 0], [8, 0, 0]], [[8, 0, 0], [8, 4, 0]], [[8, 0, 0], [8, 0, -8]], [[20, 4, 4], [20, 12, 4]]]
NCOMP = [2, 1, 2, 1]


def build():
    from harness.jaxsetup import jx, np
    comp = jx.Compartment()
    b2, b1 = jx.Branch(comp, ncomp=2), jx.Branch(comp, ncomp=1)
    net = jx.Network([jx.Cell([b2, b1, b2], parents=[-1, 0, 0]), jx.Cell([b1], parents=[-1])])
    for b, pts in enumerate(P0):
        net.xyzr[b][:, :3] = np.asarray(pts, dtype=float)
    return net


def view(net, name):
    return {"net": lambda: net, "cell0": lambda: net.cell(0), "cell1": lambda: net.cell(1),
            "cell0.branch1": lambda: net.cell(0).branch(1), "cells.branch0": lambda: net.cell("all").branch(0)}[name]()


def comp_view(net, c):
    b, k = c
    cell, lb = (0, b - 1) if b <= 3 else (1, 0)
    return net.cell(cell).branch(lb).comp(k - 1)


def worker():
    from harness.jaxsetup import np
    import copy
    job = json.load(open(sys.argv[1]))
    res = {"states": 0, "calls": 0, "mismatch": []}
    template = build()
    for st in job["states"]:
        net = copy.deepcopy(template)
        hist = st["hist"]
        sig = {"ops": [h["op"] for h in hist][-1:], "view": hist[-1].get("view") if hist else None}
        got_obs = []
        try:
            for h in hist:
                res["calls"] += 1
                if h["op"] == "move":
                    view(net, h["view"]).move(float(h["d"][0]), float(h["d"][1]), float(h["d"][2]), update_nodes=h["upd"])
                elif h["op"] == "move_to":
                    view(net, h["view"]).move_to(float(h["t"][0]), float(h["t"][1]), float(h["t"][2]), update_nodes=h["upd"])
                elif h["op"] == "move_to_each":
                    ts = np.asarray(h["ts"], dtype=float)
                    view(net, h["view"]).move_to(ts[:, 0], ts[:, 1], ts[:, 2], update_nodes=h["upd"])
                elif h["op"] == "rotate":
                    view(net, h["view"]).rotate(90.0 * h["q"], h["ax"], update_nodes=h["upd"])
                elif h["op"] == "centres":
                    view(net, h["view"]).compute_compartment_centers()
                elif h["op"] == "distance":
                    d = float(comp_view(net, h["a"]).distance(comp_view(net, h["b"])))
                    got_obs = [h["a"], h["b"], d * d]
        except Exception as e:
            res["mismatch"].append({**sig, "kind": "raised", "hist": hist, "err": type(e).__name__ + ": " + str(e)[:200]})
            res["states"] += 1
            continue
        res["states"] += 1
        got = [np.asarray(net.xyzr[b][:, :3], dtype=float) for b in range(4)]
        want = [np.asarray(x, dtype=float) for x in st["xyz"]]
        if not all(g.shape == w.shape and np.allclose(g, w, rtol=0, atol=1e-9) for g, w in zip(got, want)):
            res["mismatch"].append({**sig, "kind": "xyzr", "hist": hist, "got": [g.tolist() for g in got], "want": st["xyz"]})
            continue
        row = 0
        bad = None
        for b in range(4):
            for k in range(NCOMP[b]):
                w = st["nodes"][b][k]
                if all(c in net.nodes.columns for c in "xyz"):
                    g = net.nodes.loc[row, ["x", "y", "z"]].to_numpy(dtype=float)
                else:
                    g = np.full(3, np.nan)
                if len(w) == 0:
                    ok = bool(np.isnan(g).all())
                else:
                    ok = bool(np.allclose(g, np.asarray(w, dtype=float), rtol=0, atol=1e-9))
                if not ok and bad is None:
                    bad = {"comp": [b + 1, k + 1], "got": g.tolist(), "want": w}
                row += 1
        if bad:
            res["mismatch"].append({**sig, "kind": "node_table", "hist": hist, **bad})
        if st["obs"]:
            if not got_obs or abs(got_obs[2] - st["obs"][2]) > 1e-9 * max(1.0, st["obs"][2]):
                res["mismatch"].append({**sig, "kind": "distance", "hist": hist, "got": got_obs, "want": st["obs"]})
    json.dump(res, open(sys.argv[2], "w"), default=str)


def main():
    chk = C.Check("X01", "model_checking")
    quick = C.tier() == "quick"
    depth, sample = (2, 4) if quick else (3, 150)
    cfg = os.path.join(C.WORK, "geo.cfg")
    os.makedirs(C.WORK, exist_ok=True)
    C.write_cfg(cfg, spec="Spec", constants={"MaxDepth": depth, "SAMPLE": sample, "SEEDK": C.seed()},
                invariants=["TypeOK", "CentresIntegral", "LengthsPreserved", "WholeCellViewsKeepCellsTogether",
                            "MoveToReachesItsTarget", "StoredCentresAreSpacedLikeTheBranch"],
                properties=["RigidOnTheView", "OutsideTheViewNothingMoves"], constraints=["Constr"])
    res = C.run_tlc("MC_Geometry", cfg, "geo", workers=C.NCPU, timeout=1700)
    if res.violated:
        chk.violation({"tlc_invariant": res.violated}, res.out[-2000:])
        return chk.finish()
    if not res.ok:
        raise C.MachineryError("Geometry.tla failed:\n" + res.out[-2000:])
    sts = []
    for line in res.printed("GEO"):
        sts.append(json.loads(line[line.index('"{') + 1: line.rindex('}"') + 1].replace('\\"', '"')))
    if len(sts) < 1000:
        raise C.MachineryError("only %d states emitted" % len(sts))
    for need in ("move", "move_to", "move_to_each", "rotate", "centres", "distance"):
        if not any(h["op"] == need for s in sts for h in s["hist"]):
            raise C.MachineryError("vacuity: no emitted history contains %s" % need)
    outs = C.run_workers("geometry_check", [{"states": ch} for ch in C.chunks(sts, C.NCPU)], timeout=3000)
    n = calls = 0
    for o in outs:
        n += o["states"]
        calls += o["calls"]
        for m in o["mismatch"]:
            chk.violation({k: m[k] for k in ("kind", "ops", "view") if k in m}, m)
    chk.set("states", res.distinct)
    chk.set("transitions", res.generated)
    chk.set("traces_validated_against_impl", n)
    chk.set("calls_replayed", calls)
    chk.set("exhaustive", True)
    chk.set("evaluations", n)
    chk.set("distinct_nontrivial", n)
    chk.set("rule", "Geometry.tla: every history of <= %d calls of move / move_to (scalars and per-cell arrays) / rotate (quarter turns, "
                    "3 planes) / compute_compartment_centers on 5 views (x update_nodes) and distance between any two compartments of a "
                    "two-cell network; invariants LengthsPreserved, WholeCellViewsKeepCellsTogether, MoveToReachesItsTarget, RigidOnTheView, "
                    "OutsideTheViewNothingMoves; every state below the bound and 1/%d of the deepest level replayed into the real module: "
                    "xyzr, node table x/y/z (incl. staleness) and distance compared" % (depth, sample))
    chk.sample(sts[len(sts) // 2])
    chk.assume("TLC", "integer coordinates (axis-parallel branches, quarter turns); not one of the listed properties")
    return chk.finish()


if __name__ == "__main__":
    if len(sys.argv) == 3:
        worker()
    else:
        C.main_wrapper(main)

"""Worker: ViewWrites.tla replayed - mutating calls through HELD views (created before any of the calls) (C11)."""
import json
import sys
import zlib

from harness.jaxsetup import jax, jnp, np, jx

SHAPE = [2, 1, 2]          # 5 rows: branch 0 -> rows 0,1; branch 1 -> row 2; branch 2 -> rows 3,4


def constructors(cell):
    """row set -> list of (description, function building a view with exactly that denotation)"""
    import itertools
    cands = []
    for k in range(1, 4):
        for bs in itertools.combinations(range(3), k):
            cands.append(("branch(%s)" % list(bs), lambda c, bs=bs: c.branch(list(bs))))
            for ks in ([0], [1], [0, 1]):
                cands.append(("branch(%s).comp(%s)" % (list(bs), ks), lambda c, bs=bs, ks=ks: c.branch(list(bs)).comp(ks)))
    cands.append(("cell", lambda c: c))
    cands.append(("comp('all')", lambda c: c.branch("all").comp("all")))
    table = {}
    for name, fn in cands:
        try:
            rows = tuple(sorted(int(x) for x in fn(cell)._nodes_in_view))
        except Exception:
            continue
        table.setdefault(rows, []).append((name, fn))
    return table


def main():
    job = json.load(open(sys.argv[1]))
    out = {"states": 0, "calls": 0, "chain_views": 0, "mismatch": []}
    comp = jx.Compartment()
    proto = jx.Cell([jx.Branch(comp, ncomp=k) for k in SHAPE], parents=[-1, 0, 0])
    proto.set("radius", 1.0)
    table = constructors(proto)
    import pickle
    frozen = pickle.dumps(proto)
    for st in job["states"]:
        cell = pickle.loads(frozen)
        salt = zlib.crc32(json.dumps(st["hist"]).encode())
        views, how = [], []
        for rows in st["held"]:
            key = tuple(rows)
            if key in table:
                name, fn = table[key][salt % len(table[key])]
                views.append(fn(cell)); how.append(name); out["chain_views"] += 1
            else:
                views.append(cell.select(nodes=list(rows))); how.append("select(nodes=%s)" % list(rows))
        sig = {"kind": "held_view_write", "op": st["hist"][-1][0]}
        try:
            for k, (op, i) in enumerate(st["hist"]):
                v = views[i - 1]
                out["calls"] += 1
                if op == "group":
                    v.add_to_group("g")
                elif op == "set":
                    v.set("radius", float(10 + k))
                elif op == "record":
                    v.record("v", verbose=False)
                elif op == "stim":
                    v.stimulate(jnp.asarray([float(k + 1), float(k + 1)]), verbose=False)
        except Exception as e:
            out["mismatch"].append({**sig, "what": "raised", "held": how, "hist": st["hist"], "err": type(e).__name__ + ": " + str(e)[:150]})
            out["states"] += 1
            continue
        out["states"] += 1
        got = {"grp": sorted(int(x) for x in cell.groups.get("g", [])),
               "val": [int(round(float(x))) for x in cell.nodes["radius"]],
               "recs": [int(x) for x in cell.recordings["rec_index"]] if len(cell.recordings) else [],
               "stims": [[int(r), int(round(float(np.asarray(cur)[0])))] for r, cur in
                         zip(np.asarray(cell.external_inds.get("i", [])), np.asarray(cell.externals.get("i", np.zeros((0, 2)))))]}
        want = {"grp": list(st["grp"]), "val": list(st["val"]), "recs": list(st["recs"]), "stims": [list(p) for p in st["stims"]]}
        bad = [k for k in want if got[k] != want[k]]
        if bad:
            out["mismatch"].append({**sig, "what": "tables differ: " + ",".join(bad), "held": how, "hist": st["hist"], "got": got, "want": want})
    json.dump(out, open(sys.argv[2], "w"), default=str)


if __name__ == "__main__":
    main()

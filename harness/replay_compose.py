"""Worker: the composition law of Integrate.tla (Split(k): continuing from the returned state equals one run) instantiated on a
model OUTSIDE the integer probe domain: HH plus a voltage-gated calcium source and a pool that READS the membrane current
`i_Ca` from the states (the carried current is part of the state that has to survive the hand-over) (C07)."""
import json
import sys

from harness.jaxsetup import jax, jnp, np, jx
from jaxley.channels import HH, Channel
from jaxley.integrate import build_init_and_step_fn
from jaxley.solver_gate import exponential_euler


class CaSource(Channel):
    def __init__(self, name=None):
        self.current_is_in_mA_per_cm2 = True
        super().__init__(name)
        self.channel_params = {"CaSource_g": 2e-3}
        self.channel_states = {"CaSource_m": 0.05}
        self.current_name = "i_Ca"

    def update_states(self, u, dt, v, params):
        m_inf = 1.0 / (1.0 + jnp.exp(-(v + 30.0) / 6.0))
        return {"CaSource_m": exponential_euler(u["CaSource_m"], dt, m_inf, 1.5)}

    def compute_current(self, u, v, params):
        return params["CaSource_g"] * u["CaSource_m"] ** 2 * (v - 120.0)

    def init_state(self, states, v, params, delta_t):
        return {}


class CaPool(Channel):
    def __init__(self, name=None):
        self.current_is_in_mA_per_cm2 = True
        super().__init__(name)
        self.channel_params = {"CaPool_gK": 5e-3, "CaPool_tau": 20.0}
        self.channel_states = {"Cai": 1e-4}
        self.current_name = "i_KCa"

    def update_states(self, u, dt, v, params):
        cai_inf = 1e-4 + params["CaPool_tau"] * (-5.0 * u["i_Ca"])          # reads a membrane current
        return {"Cai": exponential_euler(u["Cai"], dt, cai_inf, params["CaPool_tau"])}

    def compute_current(self, u, v, params):
        return params["CaPool_gK"] * u["Cai"] / (u["Cai"] + 0.5) * (v + 90.0)

    def init_state(self, states, v, params, delta_t):
        return {}


DT = 0.025


def build(n, first=0, stim_len=None):
    comp = jx.Compartment()
    cell = jx.Cell([jx.Branch(comp, 2), jx.Branch(comp, 1)], parents=[-1, 0])
    cell.insert(HH())
    cell.branch(0).insert(CaSource())
    cell.branch(0).insert(CaPool())
    cur = np.asarray([0.08 if 4 <= k < 70 else 0.0 for k in range(200)])
    stim_len = n if stim_len is None else stim_len
    cell.branch(0).comp(0).stimulate(jnp.asarray(cur[first:first + stim_len]), verbose=False)
    cell.record("v", verbose=False)
    cell.branch(0).comp(1).record("Cai", verbose=False)
    cell.branch(0).comp(0).record("i_Ca", verbose=False)
    return cell


def main():
    job = json.load(open(sys.argv[1]))
    out = {"runs": 0, "mismatch": []}
    with jax.disable_jit(False):
        for it in job["items"]:
            n, n1, vs, solver, layout = it["n"], it["n1"], it["vs"], it["solver"], it["layout"]
            sig = {"voltage_solver": vs, "solver": solver, "layout": bool(layout), "model": "reads_membrane_current"}
            try:
                kw = dict(delta_t=DT, voltage_solver=vs, solver=solver)
                whole = np.asarray(jx.integrate(build(n), **kw))
                c1, c2 = build(n1, 0), build(n - n1, n1)
                kw1 = dict(kw, checkpoint_lengths=layout) if layout else kw
                r1, s1 = jx.integrate(c1, return_states=True, **kw1)
                r2 = np.asarray(jx.integrate(c2, all_states=s1, **kw))
                out["runs"] += 1
                got = np.concatenate([np.asarray(r1), r2[:, 1:]], axis=1)
                if got.shape != whole.shape or not np.allclose(got, whole, rtol=1e-10, atol=1e-12):
                    bad = int(np.argmax(np.max(np.abs(got - whole), axis=0))) if got.shape == whole.shape else -1
                    out["mismatch"].append({"kind": "split_recordings", **sig, "n": n, "n1": n1, "first_bad_column": bad,
                                            "maxdiff": float(np.max(np.abs(got - whole))) if got.shape == whole.shape else None})
                if not np.allclose(r2[:, 0], np.asarray(r1)[:, -1], rtol=1e-10, atol=1e-12):
                    out["mismatch"].append({"kind": "continuation_column0", **sig, "n": n, "n1": n1})
                if it.get("manual"):
                    c3 = build(n1, 0)
                    c3.to_jax()
                    init_fn, step_fn = build_init_and_step_fn(c3, voltage_solver=vs, solver=solver)
                    st, params = init_fn([], s1, None, DT)
                    cur = np.asarray([0.08 if 4 <= k < 70 else 0.0 for k in range(200)])
                    v_last = None
                    for k in range(n1, n):
                        st = step_fn(st, params, {"i": jnp.asarray([cur[k]])}, delta_t=DT)
                    v_last = np.asarray(st["v"])
                    out["runs"] += 1
                    if not np.allclose(v_last, whole[:3, -1], rtol=1e-10, atol=1e-12):
                        out["mismatch"].append({"kind": "manual_stepping_differs", **sig, "n": n, "n1": n1})
            except Exception as e:
                out["mismatch"].append({"kind": "raised", **sig, "n": n, "n1": n1, "err": type(e).__name__ + ": " + str(e)[:200]})
    json.dump(out, open(sys.argv[2], "w"), default=str)


if __name__ == "__main__":
    main()

"""C20: connectivity builders (Connect.tla enumerates every call and every outcome of the draws; replayed with forced draws).

usage: python -m harness.connect_check            (driver)
       python -m harness.connect_check <job> <out>   (worker)
"""
import json
import os
import pickle
import sys
from collections import Counter

from harness import common as C


def build_net(ncomp):
    from harness.jaxsetup import jx
    comp = jx.Compartment()
    cells = []
    for k in ncomp:
        if k == 3:
            cells.append(jx.Cell([jx.Branch(comp, 2), jx.Branch(comp, 1)], parents=[-1, 0]))
        else:
            cells.append(jx.Cell([jx.Branch(comp, k)], parents=[-1]))
    return jx.Network(cells)


def observed(net):
    cellof = net.nodes["global_cell_index"].to_numpy()
    if len(net.edges) == 0:
        return []
    return [(int(a), int(b), int(cellof[int(a)]), int(cellof[int(b)]))
            for a, b in zip(net.edges["pre_global_comp_index"], net.edges["post_global_comp_index"])]


def worker():
    from unittest import mock
    from harness.jaxsetup import np, jx
    import importlib
    jc = importlib.import_module("jaxley.connect")
    from jaxley.synapses import IonotropicSynapse
    job = json.load(open(sys.argv[1]))
    net0 = pickle.dumps(build_net(job["net"]["ncomp"]))
    first = job["net"]["first"]
    first = first if isinstance(first, list) else [first[str(i)] for i in range(len(first))]
    ncomp = job["net"]["ncomp"]
    res = {"calls": 0, "mismatch": [], "refused_allfalse": 0}
    for it in job["calls"]:
        call, pairs = it["call"], [tuple(p) for p in it["pairs"]]
        net = pickle.loads(net0)
        sig = {"kind": call["kind"], "n_pre": len(call["pre"]), "n_post": len(call["post"])}
        np.random.seed(it["k"])
        forced_last = False
        try:
            pre, post = net.cell(call["pre"]), net.cell(call["post"])
            if call["kind"] == "full":
                jc.fully_connect(pre, post, IonotropicSynapse())
            elif call["kind"] == "matrix":
                M = np.asarray(call["m"], dtype=bool).reshape(len(call["pre"]), len(call["post"]))
                try:
                    jc.connectivity_matrix_connect(pre, post, IonotropicSynapse(), M)
                except ValueError:
                    if not M.any():
                        res["refused_allfalse"] += 1      # nothing to connect: refusing is an admissible outcome
                        res["calls"] += 1
                        continue
                    raise
            else:
                pd_, qd_ = call["pd"], call["qd"]
                sig["draws"] = len(pd_)
                seq = [np.asarray(pd_, dtype=int), np.asarray(qd_, dtype=int)]

                def fake_choice(a, size=None, replace=True, p=None):
                    if seq:
                        return seq.pop(0)
                    return np.asarray(a)[-1:]          # sample_comp: the LAST compartment of the view it is given
                with mock.patch.object(np.random, "binomial", lambda n, p: len(pd_)), \
                        mock.patch.object(np.random, "choice", fake_choice):
                    jc.sparse_connect(pre, post, IonotropicSynapse(), p=0.5)
                forced_last = True
        except Exception as e:
            res["mismatch"].append({**sig, "what": "builder raised", "call": call, "err": type(e).__name__ + ": " + str(e)[:150]})
            res["calls"] += 1
            continue
        res["calls"] += 1
        obs = observed(net)
        got = Counter((c, d) for _, _, c, d in obs)
        if got != Counter(pairs):
            res["mismatch"].append({**sig, "what": "created connections differ from the requested ones", "call": call,
                                    "got": sorted(got.elements()), "want": sorted(pairs)})
            continue
        for a, b, c, d in obs:
            if a != first[c]:
                res["mismatch"].append({**sig, "what": "presynaptic site is not the first compartment of the pre cell", "call": call})
                break
            if forced_last and b != first[d] + ncomp[d] - 1:
                res["mismatch"].append({**sig, "what": "postsynaptic site is not the compartment drawn in the intended post cell", "call": call})
                break
    # code -> spec: outcomes under real seeds must be outcomes Connect.tla allows
    for s in job.get("seeds", []):
        for prepop, postpop, p in job["seed_pops"]:
            net = pickle.loads(net0)
            np.random.seed(s)
            try:
                jc.sparse_connect(net.cell(prepop), net.cell(postpop), IonotropicSynapse(), p=p)
            except Exception as e:
                res["mismatch"].append({"kind": "sparse", "n_pre": len(prepop), "n_post": len(postpop), "what": "builder raised",
                                        "seed": s, "p": p, "err": type(e).__name__ + ": " + str(e)[:150]})
                continue
            res["seeded"] = res.get("seeded", 0) + 1
            for a, b, c, d in observed(net):
                if c not in prepop or d not in postpop or a != first[c]:
                    res["mismatch"].append({"kind": "sparse", "n_pre": len(prepop), "n_post": len(postpop),
                                            "what": "connection outside the populations / wrong presynaptic site", "seed": s})
                    break
    json.dump(res, open(sys.argv[2], "w"), default=str)


def main():
    chk = C.Check("C20", "model_checking")
    quick = C.tier() == "quick"
    cfg_src = open(os.path.join(C.SPEC, "MC_Connect.cfg")).read()
    if not quick:
        cfg_src = cfg_src.replace("MaxDraws = 2", "MaxDraws = 3")
    os.makedirs(C.WORK, exist_ok=True)
    cfgp = os.path.join(C.WORK, "conn.cfg")
    open(cfgp, "w").write(cfg_src)
    res = C.run_tlc("MC_Connect", cfgp, "connect", timeout=1700)
    if res.violated:
        chk.violation({"tlc_invariant": res.violated}, res.out[-2000:])
        return chk.finish()
    if not res.ok:
        raise C.MachineryError("Connect.tla failed:\n" + res.out[-2000:])
    line = res.printed("NET")[0]
    net = json.loads(line[line.index('"{') + 1: line.rindex('}"') + 1].replace('\\"', '"'))
    calls = []
    for k, line in enumerate(res.printed("CALL")):
        o = json.loads(line[line.index('"{') + 1: line.rindex('}"') + 1].replace('\\"', '"'))
        o["k"] = k
        calls.append(o)
    kinds = Counter(c["call"]["kind"] for c in calls)
    for need in ("full", "matrix", "sparse"):
        if kinds[need] == 0:
            raise C.MachineryError("vacuity: no %s call enumerated" % need)
    if quick:
        # all fully_connect calls, all sparse outcomes; matrices: all up to 6 entries, every 4th of the 3x3 ones
        calls = [c for c in calls if c["call"]["kind"] != "matrix" or len(c["call"]["pre"]) * len(c["call"]["post"]) <= 6
                 or c["k"] % 4 == C.seed() % 4]
    jobs = [{"net": net, "calls": ch, "seeds": [], "seed_pops": []} for ch in C.chunks(calls, C.NCPU)]
    nseeds = 200 if quick else 1000
    for i, j in enumerate(jobs):
        j["seeds"] = list(range(C.seed() * 10000 + i, C.seed() * 10000 + nseeds, len(jobs)))
        j["seed_pops"] = [([0, 1], [2, 3], 0.25), ([0, 1, 2], [3], 0.6), ([2], [0, 1, 3], 0.4)]
    outs = C.run_workers("connect_check", jobs, timeout=3000)
    n = ns = 0
    for o in outs:
        n += o["calls"]
        ns += o.get("seeded", 0)
        for m in o["mismatch"]:
            sig = {"kind": m["kind"], "what": m["what"]}
            if m["kind"] == "full":
                sig["populations_of_equal_size"] = m["n_pre"] == m["n_post"]
            if m["kind"] == "sparse" and "draws" in m:
                sig["draws"] = m["draws"]
            chk.violation(sig, m)
    chk.set("states", res.distinct)
    chk.set("transitions", res.generated)
    chk.set("traces_validated_against_impl", n + ns)
    chk.set("calls_replayed", n)
    chk.set("calls_by_kind", dict(Counter(c["call"]["kind"] for c in calls)))
    chk.set("outcomes_under_real_seeds_checked", ns)
    chk.set("exhaustive", True)
    chk.set("evaluations", n + ns)
    chk.set("distinct_nontrivial", sum(1 for c in calls if len(c["call"]["pre"]) != len(c["call"]["post"]) or c["call"]["kind"] != "full"))
    chk.set("rule", "populations of 1..3 cells (contiguous and not) out of 4 cells with 1,3,2,2 compartments; every fully_connect call, "
                    "every boolean matrix, every outcome of sparse_connect's draws with 0..%d sampled connections (draws forced by patching "
                    "numpy.random inside the call); plus %d real seeds whose outcome must be allowed" % (2 if quick else 3, ns))
    for c in calls[:2] + calls[-1:]:
        chk.sample(c)
    chk.assume("TLC", "postsynaptic compartment is any compartment of the post cell (forced to the last one for sparse_connect)",
               "connectivity_matrix_connect with an all-False matrix may refuse")
    return chk.finish()


if __name__ == "__main__":
    if len(sys.argv) == 3:
        worker()
    else:
        C.main_wrapper(main)

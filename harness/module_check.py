"""C19 / C10 / C08(structure): JaxleyModule.tla + ProbeSim.tla model-checked by TLC, state graph replayed on
the real code with projection compare after every call and integer simulation oracle.

usage: python -m harness.module_check C19|C10
"""
import collections
import json
import os
import random
import re
import sys

from harness import common as C

KEYS = ["radius", "v", "A_g", "A_s", "B_g", "sh"]


def fn_list(f, n):
    """TLC function over 0..n-1 (dict) or 1..n (tuple) -> list"""
    if isinstance(f, tuple):
        return list(f)
    return [f[i] for i in range(n)]


def normalize(st, N):
    col = st["col"]
    out = {
        "has": [sorted(x) for x in fn_list(st["has"], N)],
        "col": {k: fn_list(col[k], N) for k in KEYS},
        "colset": sorted(st["colset"]),
        "reg": list(st["reg"]),
        "curs": list(st["curs"]),
        "groups": {g: sorted(v) for g, v in st["groups"].items() if len(v) > 0},
        "recs": [[p[0], p[1]] for p in st["recs"]],
        "ext": {k: [[p[0], p[1]] for p in v] for k, v in st["ext"].items() if len(v) > 0},
        "nin": st["nin"],
        "trains": [{"key": t["key"], "groups": sorted(sorted(g) for g in t["groups"]), "val": t["val"]} for t in st["trains"]],
        "eff": {k: fn_list(st["eff"][k], N) for k in KEYS},
        "obs": [list(r) for r in st["obs"]],
    }
    return out


def alphabet(acts):
    """Action labels of MC_Module.Next for the classes in `acts` (for the refusal check)."""
    labs = []
    q = lambda s: '"%s"' % s
    has = lambda c: '"%s"' % c in acts
    allviews = ["all", "b0", "b01", "b12", "c0", "mid", "last"]
    for ch in ("A", "B"):
        for vn in allviews:
            if has("insert"):
                labs.append("AInsert(%s,%s)" % (q(ch), q(vn)))
            if has("delete"):
                labs.append("ADeleteChannel(%s,%s)" % (q(ch), q(vn)))
    for k in KEYS:
        for x in (1, 2):
            for vn in ("all", "b01", "c0", "last"):
                if has("set"):
                    labs.append("ASet(%s,%d,%s)" % (q(k), x, q(vn)))
        for vn in ("all", "b0", "b01", "b12", "c0"):
            if has("train"):
                labs.append("AMakeTrainable(%s,2,%s)" % (q(k), q(vn)))
    for vn in ("all", "b0", "c0", "mid"):
        if has("deltrain"):
            labs.append("ADeleteTrainables(%s)" % q(vn))
    if has("write"):
        labs.append("AWriteTrainables")
    for g in ("g1", "g2"):
        for vn in ("b0", "c0", "last"):
            if has("group"):
                labs.append("AAddToGroup(%s,%s)" % (q(g), q(vn)))
    for s in ("v", "A_s", "i_A"):
        for vn in ("all", "b01", "mid", "last"):
            if has("record") or (has("record1") and s == "v" and vn == "all"):
                labs.append("ARecord(%s,%s)" % (q(s), q(vn)))
    for vn in ("all", "b0", "c0"):
        if has("delrec"):
            labs.append("ADeleteRecordings(%s)" % q(vn))
    for vn in ("b0", "c0", "mid", "last"):
        if has("input"):
            labs.append("AStimulate(%s)" % q(vn))
    for s in ("v", "A_s"):
        for vn in ("b0", "mid", "last"):
            if has("input"):
                labs.append("AClamp(%s,%s)" % (q(s), q(vn)))
    for vn in ("all", "c0"):
        if has("delinput"):
            labs.append("ADeleteStimuli(%s)" % q(vn))
            for s in ("v", "A_s"):
                labs.append("ADeleteClamps(%s,%s)" % (q(s), q(vn)))
    return labs


def norm_label(l):
    return l.replace(" ", "")


def tlc_graph(name, cfgname, depth, dump=True, workers=None, timeout=1700):
    cfg_src = open(os.path.join(C.SPEC, cfgname)).read()
    cfg = os.path.join(C.WORK, "%s_d%d.cfg" % (name, depth))
    os.makedirs(C.WORK, exist_ok=True)
    import re
    open(cfg, "w").write(re.sub(r"MaxDepth = \d+", "MaxDepth = %d" % depth, cfg_src))
    dot = os.path.join(C.WORK, "%s_d%d.dot" % (name, depth)) if dump else None
    res = C.run_tlc("MC_Module", cfg, "%s_d%d" % (name, depth), dump=dot, coverage=dump, workers=workers, timeout=timeout)
    return res, dot


def classify(mm, model):
    """Input-describing signature of a mismatch (never the observed wrong value)."""
    lab = mm.get("label") or ""
    sig = {"kind": mm["kind"], "action": lab.split("(")[0]}
    if mm.get("container") == "network":
        sig["container"] = "network"
    if mm["kind"] == "transition":
        sig["differs"] = ",".join(sorted(mm["differs"]))
    if mm["kind"] == "route":
        sig["route"] = mm["route"]
    hist = [p.split("(")[0] for p in mm.get("path", [])]
    sig["history_has"] = ",".join(sorted(set(hist)))
    if sig["action"] == "Integrate" and "src_recs" in mm:
        dangling = any(r[1] in ("A_s", "i_A") and "A" not in mm["src_reg"] for r in mm["src_recs"])
        sig["records_state_of_deleted_channel"] = dangling
        del sig["history_has"]
    if sig["action"] == "ADeleteTrainables" and "src_trains" in mm:
        _, args = C.parse_action_label(lab)
        V = set(model["views"][args[0]]["rows"])
        keys = {t["key"] for t in mm["src_trains"]}
        sig["trainable_keys"] = "has_non_channel_param" if keys & {"radius", "v", "A_s"} else "channel_params_only"
        npart = max([sum(1 for g in t["groups"] if set(g) & V and not set(g) <= V) for t in mm["src_trains"]] + [0])
        sig["groups_partially_in_view"] = "2+" if npart >= 2 else str(npart)
        del sig["history_has"]
        sig.pop("differs", None)
    return sig


def _report(chk, traces, reached, crashed, seeds):
    nev = 0
    for t, tr in enumerate(traces, start=1):
        nev += len(tr)
        if reached[t] != len(tr) + 1:
            e = tr[max(reached[t], 1) - 1]
            chk.violation({"kind": "trace_rejected" if t not in crashed else "trace_state_unreadable", "action": e["op"], "accepted_by_code": bool(e["ok"])},
                          {"trace_seed": seeds[t - 1], "event_index": reached[t], "event": {k_: e[k_] for k_ in ("op", "a", "x", "view", "ok")},
                           "err": e.get("err"), "history": [[x["op"], x["a"], x["view"], x["ok"]] for x in tr[:reached[t]]],
                           "logged_post": e["post"]})
    return nev


def trace_validation(chk, model, quick, sd):
    """Code -> spec: long random histories recorded from the real code, validated by TLC against Trace_Module.tla."""
    ntr, length = (64, 25) if quick else (1500, 30)
    seeds = [sd * 100000 + i for i in range(ntr)]
    jobs = [{"model": dict(model, container="network" if (i + sd) % 2 else "cell"), "seeds": ch, "length": length}
            for i, ch in enumerate(C.chunks(seeds, C.NCPU))]
    outs = C.run_workers("trace_module", jobs, timeout=3000)
    traces = [t for o in outs for t in o["traces"]]
    reached, crashed = C.validate_traces("MC_Trace_Module", os.path.join(C.SPEC, "MC_Trace_Module.cfg"), traces, "trace_module")
    # binding demonstration: one corrupted field of one trace must be rejected at exactly that event
    # (on a trace the specification accepts as it is; with none accepted there is nothing to demonstrate on)
    accepted = [t for t, tr in enumerate(traces, start=1) if reached[t] == len(tr) + 1 and any(e["ok"] == 1 for e in tr)]
    if not accepted:
        return len(traces), _report(chk, traces, reached, crashed, seeds)
    bad = json.loads(json.dumps([traces[accepted[0] - 1]]))
    k = next(i for i, e in enumerate(bad[0]) if e["ok"] == 1)
    bad[0][k]["post"]["col"]["radius"][3] += 1
    tf2 = os.path.join(C.WORK, "traces_corrupt.json")
    json.dump(bad, open(tf2, "w"))
    res2 = C.run_tlc("MC_Trace_Module", os.path.join(C.SPEC, "MC_Trace_Module.cfg"), "trace_module2", workers=2, timeout=600,
                     env={"TRACE_FILE": tf2}, tolerate_eval_errors=True)
    got = max([int(re.match(r'<<"AT", (\d+), (\d+)>>', l).group(2)) for l in res2.printed("AT")] + [0])
    if got != k + 1:
        raise C.MachineryError("a corrupted trace was matched up to event %d, expected rejection at event %d" % (got, k + 1))
    return len(traces), _report(chk, traces, reached, crashed, seeds)


def geometry_routes(chk):
    """C10 on the geometry keys AS A CHANNEL SEES THEM: a user channel whose current reads radius / length / axial_resistivity
    from the parameters it is handed must see the value whichever way it was supplied (set, data_set, make_trainable + params,
    write_trainables).  The probe channels of ProbeSim.tla do not read geometry, so this route is compared on its own."""
    from harness.jaxsetup import jax, jnp, np, jx
    from jaxley.channels import Channel

    class G(Channel):
        def __init__(self, name=None):
            self.current_is_in_mA_per_cm2 = True
            super().__init__(name)
            self.channel_params = {"G_g": 1e-4}
            self.channel_states = {}
            self.current_name = "i_G"

        def update_states(self, states, dt, v, params):
            return {}

        def compute_current(self, states, v, params):
            return params["G_g"] * (params["radius"] + 0.1 * params["length"] + 0.001 * params["axial_resistivity"]) * (v + 50.0)

        def init_state(self, states, v, params, delta_t):
            return {}

    def fresh():
        comp = jx.Compartment()
        cell = jx.Cell([jx.Branch(comp, 2), jx.Branch(comp, 1), jx.Branch(comp, 2)], parents=[-1, 0, 0])
        cell.insert(G())
        cell.set("v", -70.0)
        cell.record("v", verbose=False)
        return cell

    n = 0
    for key, x in (("radius", 2.5), ("length", 17.0), ("axial_resistivity", 900.0)):
        for vname, sel in (("branch2", lambda c: c.branch(2)), ("comp", lambda c: c.branch(0).comp(1)), ("module", lambda c: c)):
            outs = {}
            kw = dict(delta_t=0.025, t_max=0.2)
            c = fresh(); sel(c).set(key, x)
            outs["set"] = np.asarray(jx.integrate(c, **kw))
            c = fresh(); ps = sel(c).data_set(key, jnp.asarray(x), None)
            outs["data_set"] = np.asarray(jx.integrate(c, param_state=ps, **kw))
            c = fresh(); sel(c).make_trainable(key, verbose=False)
            outs["make_trainable"] = np.asarray(jx.integrate(c, params=[{key: jnp.asarray([x])}], **kw))
            c = fresh(); sel(c).make_trainable(key, verbose=False); c.write_trainables([{key: jnp.asarray([x])}]); c.delete_trainables()
            outs["write_trainables"] = np.asarray(jx.integrate(c, **kw))
            base = fresh()
            untouched = np.asarray(jx.integrate(base, **kw))
            for route, o in outs.items():
                n += 1
                if not np.allclose(o, outs["set"], rtol=1e-10, atol=1e-10) or np.allclose(o, untouched, rtol=1e-10, atol=1e-10):
                    chk.violation({"kind": "geometry_seen_by_channel", "key": key, "route": route, "view": vname},
                                  {"max_abs_difference_to_set": float(np.max(np.abs(o - outs["set"]))),
                                   "max_abs_difference_to_untouched": float(np.max(np.abs(o - untouched)))})
    return n


def main(which):
    chk = C.Check(which, "model_checking")
    quick = C.tier() == "quick"
    sd = C.seed()
    rnd = random.Random(sd)
    # (configuration, depth of the replayed graph, number of deepest-level source states sampled [None = all])
    if which == "C19":
        graphs = [("MC_Module.cfg", 2, None), ("MC_Chans.cfg", 3, 40 if quick else 600),
                  ("MC_Inputs.cfg", 3, None), ("MC_Recs.cfg", 3, None)]
    else:
        graphs = [("MC_Params.cfg", 3, 30 if quick else 400)]
    states = trans = 0
    tot = collections.Counter()
    samples = []
    deep_info = []
    for gi, (cfgname, replay_depth, nsample) in enumerate(graphs):
        import time as _t
        t_a = _t.time()
        res, dot = tlc_graph(which.lower() + "_g%d" % gi, cfgname, replay_depth)
        if res.violated:
            chk.violation({"tlc_invariant": res.violated, "cfg": cfgname}, res.out[-3000:])
            continue
        if not res.ok:
            raise C.MachineryError("TLC failed:\n" + res.out[-2000:])
        acts = re.search(r"ACTS = \{(.*?)\}", open(os.path.join(C.SPEC, cfgname)).read()).group(1)
        line = res.printed("MODEL")[0]
        model = json.loads(line[line.index('"{') + 1: line.rindex('}"') + 1].replace('\\"', '"'))
        model["views"] = {k: {"rows": sorted(v["rows"]), "by": v["by"]} for k, v in model["views"].items()}
        model["quick"] = quick
        model["routes"] = which == "C10"
        N = len(model["branch_of_row"])
        nodes, edges, inits = C.parse_dot(dot)
        os.remove(dot)
        states += len(nodes)
        trans += len(edges)
        taken = collections.Counter(l.split("(")[0] for _, _, l in edges)
        need = {"insert": ["AInsert"], "delete": ["ADeleteChannel"], "set": ["ASet"], "train": ["AMakeTrainable"],
                "deltrain": ["ADeleteTrainables"], "write": ["AWriteTrainables"], "group": ["AAddToGroup"], "record": ["ARecord", "Integrate"], "record1": ["ARecord", "Integrate"],
                "delrec": ["ADeleteRecordings"], "input": ["AStimulate", "AClamp"], "delinput": ["ADeleteStimuli", "ADeleteClamps"]}
        for cls, names in need.items():
            if '"%s"' % cls in acts:
                for act in names:
                    if taken[act] == 0:
                        raise C.MachineryError("vacuity: action %s never taken in %s" % (act, cfgname))
        # deeper exhaustive exploration of the invariants (no replay)
        deep = replay_depth + (1 if quick else 2) - (1 if cfgname != "MC_Module.cfg" else 0)
        t_b = _t.time()
        if deep > replay_depth:
            res2, _ = tlc_graph(which.lower() + "_g%ddeep" % gi, cfgname, deep, dump=False, timeout=2400)
        else:
            res2 = res
        t_c = _t.time()
        if res2.violated:
            chk.violation({"tlc_invariant": res2.violated, "depth": deep, "cfg": cfgname}, res2.out[-3000:])
        elif not res2.ok:
            raise C.MachineryError("TLC (deep) failed:\n" + res2.out[-2000:])
        if res2 is not res:
            states += res2.distinct
            trans += res2.generated
        deep_info.append({"cfg": cfgname, "replay_depth": replay_depth, "invariant_depth": deep, "replay_graph_states": len(nodes),
                          "replay_graph_transitions": len(edges), "deep_states": res2.distinct})
        adj = collections.defaultdict(list)
        for a, b, l in edges:
            adj[a].append((l, b))
        path = {inits[0]: []}
        q = collections.deque([inits[0]])
        while q:
            a = q.popleft()
            for l, b in adj[a]:
                if b not in path and l != "Integrate":
                    path[b] = path[a] + [l]
                    q.append(b)
        norm = {}
        alpha = alphabet(acts)
        sts = []
        deepest = [nid for nid in nodes if nid in path and len(path[nid]) == replay_depth - 1 and not nodes[nid]["obs"]]
        keep = set(deepest if nsample is None else rnd.sample(sorted(deepest), min(nsample, len(deepest))))
        for nid in nodes:
            if nid not in path or nodes[nid]["obs"] or not adj[nid]:
                continue
            if len(path[nid]) == replay_depth - 1 and nid not in keep:
                continue
            for _, b in adj[nid]:
                if b not in norm:
                    norm[b] = normalize(nodes[b], N)
            if nid not in norm:
                norm[nid] = normalize(nodes[nid], N)
            enabled = {norm_label(l) for l, _ in adj[nid]}
            out = [[l, norm[b]] for l, b in adj[nid]]
            # states at the depth bound have every editing call disabled by the bound, not by a guard
            # (the node's OWN depth counts: under the VIEW that hides `depth`, TLC's workers may have kept a copy of this
            # state that was reached by a longer history and sits at the bound although a shorter history reaches it too)
            at_bound = max(len(path[nid]), int(nodes[nid].get("depth", 0))) >= replay_depth
            refused = [l for l in alpha if norm_label(l) not in enabled] if not at_bound else []
            if len(path[nid]) >= 1 and (quick or len(path[nid]) >= 2):
                refused = rnd.sample(refused, min(len(refused), 4))
            sts.append({"path": path[nid], "state": norm[nid], "out": out, "refused": refused})
        sts.sort(key=lambda s: (len(s["path"]), s["path"]))
        if quick:
            # budget: at most ~350 simulated states per graph (each is 2 eager integrate calls)
            with_int = [s_ for s_ in sts if any(l == "Integrate" for l, _ in s_["out"])]
            keep_int = set(id(x) for x in rnd.sample(with_int, min(350, len(with_int))))
            for s_ in sts:
                if id(s_) not in keep_int:
                    s_["out"] = [o for o in s_["out"] if o[0] != "Integrate"]
            sts = [s_ for s_ in sts if s_["out"] or s_["refused"]]
        samples += [{"history": s["path"], "calls_tried": [l for l, _ in s["out"]][:4]} for s in sts[-2:]]
        # half of the jobs replay their histories on a cell, the other half on a network with the same rows (replay_module.VIEW_NET)
        jobs = [{"model": dict(model, container="network" if (i + sd + gi) % 2 else "cell"), "states": ch}
                for i, ch in enumerate(C.chunks(sts, C.NCPU * 3))]
        t_d = _t.time()
        outs = C.run_workers("replay_module", jobs, timeout=3400)
        deep_info[-1]["seconds"] = {"tlc_dump+parse": round(t_b - t_a, 1), "tlc_deep": round(t_c - t_b, 1), "prepare": round(t_d - t_c, 1),
                                    "replay": round(_t.time() - t_d, 1), "source_states": len(sts)}
        for o in outs:
            for k in ("transitions", "refusals", "integrations", "routes"):
                tot[k] += o.get(k, 0)
            for mm in o["mismatch"]:
                chk.violation(classify(mm, model), mm)
    if tot["transitions"] < 1000:
        raise C.MachineryError("replayed only %d transitions" % tot["transitions"])
    if which == "C19":
        tot["traces"], tot["trace_events"] = trace_validation(chk, model, quick, sd)
    chk.set("states", states)
    chk.set("transitions", trans)
    chk.set("graphs", deep_info)
    chk.set("traces_validated_against_impl", tot["transitions"] + tot["refusals"] + tot["traces"])
    chk.set("replayed_transitions", tot["transitions"])
    chk.set("refusals_confirmed", tot["refusals"])
    chk.set("integrations_compared", tot["integrations"])
    if which == "C19":
        chk.set("recorded_traces_validated_by_tlc", tot["traces"])
        chk.set("recorded_trace_events", tot["trace_events"])
    if which == "C10":
        chk.set("set_vs_data_set_vs_trainable_routes_compared", tot["routes"])
        chk.set("geometry_routes_through_a_channel_compared", geometry_routes(chk))
    chk.set("exhaustive", True)
    chk.set("evaluations", tot["transitions"] + tot["refusals"])
    chk.set("distinct_nontrivial", states)
    chk.set("rule", "state graph of the editing alphabet (operation x view catalogue x values) on the cell <<2,1,3>> to depth %d "
                    "replayed transition by transition (projection of every public table + get_all_parameters/get_all_states after "
                    "each call, integrate vs the integer oracle of ProbeSim.tla on every state with recordings); invariants "
                    "checked by TLC to depth %d; distinct_nontrivial = distinct abstract states replayed" % (graphs[0][1], graphs[0][1] + (1 if quick else 2)))
    for s_ in samples:
        chk.sample(s_)
    chk.assume("TLC", "probe channels A/B (constant current densities) make the dynamics integer exact",
               "one irregular cell; views from a 7-entry catalogue", "deepcopy is not used: every state is rebuilt from its history")
    return chk.finish()


if __name__ == "__main__":
    C.main_wrapper(lambda: main(sys.argv[1]))

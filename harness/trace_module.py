"""Worker: records random editing histories from the real jaxley for Trace_Module.tla (code -> spec).

job: {"model": {...}, "seeds": [...], "length": n}   ->   {"traces": [[event, ...], ...]}
"""
import json
import random
import sys

from harness.jaxsetup import jax, jnp, np, jx
from harness import replay_module as rm

VIEWS = ["all", "b0", "b01", "b12", "c0", "mid", "last"]
KEYS = rm.KEYS


def random_event(rng):
    op = rng.choice(["insert", "insert", "delete", "set", "set", "train", "deltrain", "write", "group", "record", "delrec",
                     "stim", "clamp", "delstim", "delclamp"])
    e = {"op": op, "a": "-", "x": 0, "view": rng.choice(VIEWS)}
    if op in ("insert", "delete"):
        e["a"] = rng.choice(["A", "B"])
    elif op == "set":
        e["a"], e["x"] = rng.choice(KEYS), rng.choice([1, 2])
    elif op == "train":
        e["a"], e["x"] = rng.choice(KEYS), 2
        e["view"] = rng.choice(["all", "b0", "b01", "b12", "c0"])
    elif op == "write":
        e["view"] = "all"
    elif op == "group":
        e["a"] = rng.choice(["g1", "g2"])
    elif op == "record":
        e["a"] = rng.choice(["v", "A_s", "i_A"])
    elif op in ("clamp", "delclamp"):
        e["a"] = rng.choice(["v", "A_s"])
    return e


LABEL = {"insert": 'AInsert("%(a)s","%(view)s")', "delete": 'ADeleteChannel("%(a)s","%(view)s")', "set": 'ASet("%(a)s",%(x)d,"%(view)s")',
         "train": 'AMakeTrainable("%(a)s",%(x)d,"%(view)s")', "deltrain": 'ADeleteTrainables("%(view)s")', "write": "AWriteTrainables",
         "group": 'AAddToGroup("%(a)s","%(view)s")', "record": 'ARecord("%(a)s","%(view)s")', "delrec": 'ADeleteRecordings("%(view)s")',
         "stim": 'AStimulate("%(view)s")', "clamp": 'AClamp("%(a)s","%(view)s")', "delstim": 'ADeleteStimuli("%(view)s")',
         "delclamp": 'ADeleteClamps("%(a)s","%(view)s")'}


def post(ctx):
    p = rm.project(ctx)
    p["groups"] = {g: p["groups"].get(g, []) for g in ("g1", "g2")}
    p["ext"] = {k: p["ext"].get(k, []) for k in ("i", "v", "A_s")}
    if not isinstance(p.get("eff"), dict):
        p["eff_error"] = str(p.get("eff"))
        p["eff"] = {k: [-2] * 6 for k in KEYS}          # get_all_parameters raised: no specification state has -2
    p.pop("index_ok", None)
    return p


def main():
    job = json.load(open(sys.argv[1]))
    traces = []
    with jax.disable_jit():
        for sd in job["seeds"]:
            rng = random.Random(sd)
            ctx = rm.Ctx(job["model"])
            tr = []
            for _ in range(job["length"]):
                e = random_event(rng)
                nin0 = ctx.nin
                try:
                    rm.apply(ctx, LABEL[e["op"]] % e)
                    e["ok"] = 1
                except Exception as ex:
                    e["ok"] = 0
                    e["err"] = type(ex).__name__
                    ctx.nin = nin0
                e["post"] = post(ctx)
                tr.append(e)
            traces.append(tr)
    json.dump({"traces": traces}, open(sys.argv[2], "w"))


if __name__ == "__main__":
    main()

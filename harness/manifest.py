"""Generates /verif/MANIFEST.json from the table below (python -m harness.manifest)."""
import json
import os
import subprocess

ROOT = os.path.dirname(os.path.dirname(os.path.abspath(__file__)))

CHECKS = {
    "C05": dict(
        technique="TLA+ module specification extended with DEff(i, G) (which rows take the value of group G of trainable i: the "
                  "scatter whose transpose the gradient is), model-checked by TLC and compared with the real jax.jacfwd of "
                  "get_all_parameters/get_all_states; jax.grad through integrate vs complex-step differentiation of the "
                  "specification's scheme (evaluator cross-checked against TLC mod p)",
        category="exploration", design="4/C05",
        text="Sharing structure: for every history of <= 3 insert/make_trainable calls (groups of unequal size included) the 0/1 "
             "Jacobian of the simulated parameters with respect to the trainable values must be the indicator of TLC's DEff. "
             "Numbers: radius, length, axial resistivity, capacitance, initial v, leak conductance/reversal, every sample of a "
             "data_stimulate series (with samples that are exactly 0), data_set value x sharing pattern x {bwd_euler, crank_nicolson} x 3 backends x checkpoint layouts on "
             "enumerated trees, rtol 1e-7 against an independent forward-mode derivative of the specified scheme; HH cell: "
             "reverse vs forward mode, extrapolated finite differences as a guarded third opinion.",
        note="TLC pins the transposition/sharing structure and (via C01) the rational core; derivatives through exp rest on JAX's "
             "two AD modes agreeing. Finite differences never decide unless their own error estimate is tiny."),
    "C15": dict(
        technique="order conditions as field identities in TLA+ (OrderCond.tla) checked by TLC over Z_p; deterministic "
                  "refinement ladder of the real code against closed-form cable theory",
        category="other", design="4/C15",
        text="TLC: the discrete axial operator equals the exact flux divergence for every quadratic on a uniform sealed cable; "
             "backward Euler exact on linear-in-t, Crank-Nicolson (as coded) on quadratic-in-t solutions. Real code: ncomp = 4*2^k "
             "against the Green's function of a sealed cable and dt = 0.5/2^k against RC relaxation, observed orders in "
             "[1.8,2.2] / [0.9,1.1]; E + I/(g A) is a fixed point (absolute units).",
        note="The limit statement itself is outside model checking (Lax theorem trusted); level 'other'."),
    "C18": dict(
        technique="two instances of the TLA+ module specification (Copies.tla: shared prefix, Copy(pickle|deepcopy), divergent "
                  "suffix) model-checked by TLC (CopyIsEqual, EqualObs, Independence); hash-sampled histories replayed with "
                  "real pickle / deepcopy, both modules compared with both abstract states",
        category="model_checking", design="4/C18",
        text="For every history of <= 2 editing calls, a copy, and <= 1 (thorough 2) calls on either module, TLC checks that the copy "
             "equals the original in every variable until it diverges and that no later call changes the other module; the replay "
             "compares every public table, get_all_parameters/get_all_states, integrate against TLC's integers on both sides and "
             "bit-identical gradients at the copy point; SWC cells (radius functions) and synaptic networks with trainables, "
             "groups and clamps are copied, compared, differentiated and edited as well.",
        note="Trusted: TLC. The digest of the scenarios includes the structure arrays (ncomp_per_branch, parents, xyzr) and the original is "
             "re-simulated after the copy was edited."),
    "C12": dict(
        technique="metamorphic re-runs inside the TLA+ solver model (MC_Hines: Isolate a cell of a network, swap sibling leaf "
                  "branches; invariant MetamorphicAgrees over Z_p, parameters keyed by compartment labels), model-checked by TLC; "
                  "replay of networks vs cells alone, sibling swaps, heterogeneous and degenerate assemblies on the real code",
        category="model_checking", design="4/C12",
        text="TLC proves (mod p, for every forest within the bound) that a cell inside a synapse-free network gets exactly the voltages "
             "of the cell alone and that exchanging sibling branches only permutes the solution. On the real code: assembled tables "
             "keep every constituent's parameters/states/channels under contiguous indices (absent channels False/NaN, shared "
             "names vt/eK), each cell of a network simulates as alone on every accepting backend, sibling order only permutes, "
             "one-branch cell == branch, one-compartment branch == compartment; a heterogeneous assembly registers the union of its "
             "constituents' channels / current names with clean boolean indicator columns and simulates each cell as it simulates alone.",
        note="Trusted: TLC; Schwartz-Zippel; backends that refuse a network are not compared."),
    "C13": dict(
        technique="TLA+ state machine of set_ncomp call sequences (SetNcomp.tla: the abstract state is the shape, groups are "
                  "branch memberships) model-checked by TLC; every reachable state names the directly built module the edited "
                  "one must equal: refinement replay on tables, groups, structure and one step of all three voltage solvers",
        category="model_checking", design="4/C13",
        text="Every sequence of <= 2 (thorough 3) set_ncomp(b, n) calls on two irregular cells with per-branch different geometry, "
             "channels on some branches and branch groups is executed on the real cell and compared, column by column, with the "
             "cell built directly with the resulting compartment counts; groups must be the rows TLC computes from branch "
             "membership; simulation must agree on stone, thomas and jax.sparse (this is where a parent ends up shorter than a "
             "sibling with children); SWC cells: total length, re-sampled radius profile and groups.",
        note="Trusted: TLC; groups created through branch views."),
    "C08": dict(
        technique="two TLA+ specifications over integer probe dynamics model-checked by TLC: Integrate.tla (which sample acts in "
                  "which step, t_max padding/truncation, column k = state after k steps, stimuli add, clamps hold) and NetSim.tla "
                  "(recordings and clamps of synaptic states by edge identity with interleaved synapse types); every time-loop "
                  "configuration and a hash sample of the network histories replayed on jx.integrate",
        category="model_checking", design="4/C08",
        text="SampleKActsInStepK, ClampHolds, ColumnKIsAfterKSteps are TLC invariants; the real integrate must return TLC's integer "
             "matrices for every (input length, t_max, second stimulus, clamp) configuration incl. data_stimulate == stimulate and "
             "manual stepping and data_clamp == clamp; on networks every recorded synaptic state / current and every clamped synaptic state must be that of "
             "the edge it was requested for (rows in the order record() was called). Row order / de-duplication of recordings and "
             "the external-input tables are additionally decided by C19's projection compare.",
        note="Trusted: TLC; exact-binary dt; probe mechanisms make every contribution a distinguishable integer."),
    "C09": dict(
        technique="TLA+ specification of networks with synapses over integer probe dynamics (NetSim.tla) model-checked by TLC "
                  "on every wiring history; hash-sampled observed states replayed through connect()/edge views on the real "
                  "network: edge table compare + integrate vs TLC's integers",
        category="model_checking", design="4/C09",
        text="For every history of <= 3 connect() calls (autapses, fan-in, two interleaved synapse types, all creation orders) and "
             "<= 2 edits through type / k-th-edge views TLC checks CreationOrderIrrelevant, ZeroWeightIsIsolation, "
             "OnlyPostCompartmentsMove; replayed states must show each synapse reading its pre compartment, injecting into its post "
             "compartment scaled by the post area (K differs per compartment), fan-in adding, and parameters reaching exactly the "
             "selected synapses, under thomas and jax.sparse (thorough: all three backends). The probe network has specific capacitances "
             "1, 2, 0.5, 1, 4, 0.25 (a synaptic current acts like the same nA injected), is replayed as three cables and as two branched "
             "cells, edits also go through node-selection views holding both synapse types and through single-compartment views, "
             "delete_recordings through views removes exactly the recordings of the synapses in view, and weight edits go through "
             ".set, data_set or make_trainable.",
        note="Trusted: TLC; probe synapses; the replay is a deterministic 1/SAMPLE hash sample of the explored histories."),
    "C20": dict(
        technique="TLA+ specification of the connectivity builders with the random draws as nondeterministic choice "
                  "(Connect.tla); TLC enumerates every call and every outcome; spec->code replay with forced draws "
                  "(numpy.random patched inside the call); code->spec check of outcomes under real seeds",
        category="model_checking", design="4/C20",
        text="Population sizes 1..3 x 1..3 (equal and unequal, contiguous and not), every boolean matrix, every outcome of "
             "sparse_connect with 0..2 [thorough 3] sampled connections: the real builder must create exactly the bag of (pre cell, "
             "post cell) pairs the specification states, with the pre site at the first compartment of the pre cell and the post "
             "site inside the intended post cell, and must not raise.",
        note="Trusted: TLC; the post compartment is any compartment of the post cell."),
    "C16": dict(
        technique="TLA+ specification of the reader's conventions (Swc.tla) whose state machine grows every well-formed SWC "
                  "file point by point under TLC; each enumerated file is written to disk and read by swc_to_jaxley / read_swc "
                  "and compared with the specification's sections, lengths, types, parents, radius breakpoints, groups",
        category="model_checking", design="4/C16",
        text="Exhaustive over structure (every pre-ordered tree x type labelling with <= 6 points [thorough 7], 1-3 soma points, type "
             "changes along neurites), seeded lengths 0..3 and radii 1..3: ~5000 files per run, every one read by the real reader; "
             "sections, path lengths (single-point soma 2r, ignored soma gap, zero length -> 1), connector branch, parent relation, "
             "radius interpolation at compartment centres incl. min_radius clipping, groups by type, independence of ncomp.",
        note="What 'well-formed' covers is stated in Swc.tla; max_branch_len splitting is not modelled; the radius of sections that "
             "start at the root point of a multi-point soma is modelled as coded (named deviation)."),
    "C17": dict(
        technique="TLC-executed abstract interpreter (ExprAbs.tla) over the jaxprs of forward/inverse: derived cells, constant "
                  "(saturated) cells; per-cell concrete obligations with a backward-stable round-trip tolerance; Transforms.tla "
                  "enumerates every chain/mask/pytree over finite bijections, replayed exactly (eager and jit)",
        category="exploration", design="4/C17",
        text="Bounds, monotonicity and both round trips are checked on every derived cell (points, ulps, ends, log-spaced and seeded "
             "interior doubles on [-1e6, 1e6]) for sigmoid/softplus/negsoftplus with three bound sets, affine and three chains; "
             "composition order, masking and pytree routing are model-checked on finite bijections and compared with the real "
             "ChainTransform/MaskedTransform/ParamTransform built from CustomTransform lookup tables.",
        note="Exact over the reals per cell, sampled over doubles; rounding-limited flat regions are not held against the code, "
             "saturation that exact arithmetic would resolve is."),
    "C06": dict(
        technique="TLA+ specification of the time loop (Integrate.tla: t_max padding/truncation, nested checkpoint scan, "
                  "recordings, returned state) over integer probe dynamics, model-checked by TLC for every layout; every "
                  "configuration replayed on jx.integrate (eager, jit, vmap over data_stimulate), purity and repeatability compared",
        category="model_checking", design="4/C06",
        text="LayoutOrderIsIdentity (every checkpoint_lengths nesting consumes the inputs in order) is an invariant checked by TLC "
             "for all layouts with entries 1..3, depth <= 2 (thorough 3); the real integrate must return TLC's integer matrix for "
             "every (input length, t_max, second stimulus, clamp, layout) configuration on 3 backends; jit and vmap runs must "
             "equal the eager sequential run; the module's tables/inputs/recordings are digest-compared before/after and a "
             "repeated call must be bit-identical. Purity inside editing histories is additionally checked by C19.",
        note="Trusted: TLC; integer-exact probe cell. jax.sparse cannot be vmapped (JAX limitation): refused, not compared."),
    "C07": dict(
        technique="Integrate.tla invariants Composition and ReturnedStateIsLastReturned model-checked by TLC over all split "
                  "points and layouts; replay of every split/continuation, returned state and manual stepping on the real code",
        category="model_checking", design="4/C07",
        text="For every configuration TLC supplies the expected integer recordings and the state at the last returned time point; "
             "integrate(return_states=True), continuation with all_states and stepping with build_init_and_step_fn must reproduce "
             "them. AS_CODED_RET=TRUE is re-run in every check to show that TLC finds F6 from the design (non-vacuity). The "
             "composition law is also instantiated on a float model whose channel reads a membrane current (whole run == hand-over).",
        note="Known finding F6 (returned state with prod(checkpoint_lengths) > steps) is listed in known_findings.json."),
    "C03": dict(
        technique="TLC-executed abstract interpreter (ExprAbs.tla: affine forms + sign/finiteness domain, partition of the "
                  "voltage axis derived from the traced programs) over the jaxprs of every rate function; per-cell concrete "
                  "obligations on the real update functions with a 40-digit closed-form oracle",
        category="exploration", design="4/C03",
        text="The cell structure of every gate's rate program (removable singularities, clip thresholds) is decided by TLC over the "
             "reals; each cell yields the point itself, +-1..4 ulp, +-1e-9, interval ends and seeded interior doubles, crossed with "
             "5 dt regimes and 4 states: finite, in [0,1], equal to the closed-form exponential update, never past the steady state.",
        note="Exhaustive over derived cells for the real-number semantics, sampled for the float remainder; not a proof over doubles."),
    "C04": dict(
        technique="published equations as expression trees in Kinetics.tla (TLA+), exported by TLC and evaluated in 50 digits; "
                  "cells derived by TLC (ExprAbs.tla) from BOTH the code's traced programs and the published trees",
        category="exploration", design="4/C04",
        text="Kinetics.tla states what HH, Leak, Na, K, Km, CaL, CaT and IonotropicSynapse are (rates, steady states, time constants, "
             "currents, defaults, rename rule). The code's functions are compared with the trees on every derived cell (points, ulps, "
             "interior samples), currents at random states/parameters, defaults exactly, change_name on 6 prefixes per mechanism.",
        note="Trusted base: the transcription into Kinetics.tla (HH checked against NEURON's hh.mod offline; the others from memory: a "
             "disagreement with them is UNDECIDED, never a violation; CaT tau_u is contested)."),
    "C14": dict(
        technique="fixed-point obligations at every voltage cell derived by TLC (ExprAbs.tla) from the traced rate programs, run "
                  "through Module.init_states() and the mechanisms' own update_states; write-set compare of the tables",
        category="exploration", design="4/C14",
        text="For 4 setups (HH; all Pospischil channels; shifted vt/taumax/vx; renamed channels), channels inserted in 2/3 of the "
             "compartments, one compartment per derived voltage: after init_states() one update at dt in {1e-3, 0.025, 1, 1e3} leaves "
             "every gate unchanged to 1e-12, and only gate columns of rows containing the channel are written.",
        note="Voltages are the TLC-derived point cells (singular voltages included) plus seeded interior doubles."),
    "C19": dict(
        technique="TLA+ state machine of the module tables (JaxleyModule.tla) + integer simulation oracle (ProbeSim.tla), "
                  "model-checked by TLC; dumped state graph replayed call by call on the real module with projection "
                  "compare after every call, refused calls must raise, integrate compared with TLC's integers",
        category="model_checking", design="4/C19",
        text="Every public editing call is one TLA+ action on abstract tables (channels with a shared column, parameters, "
             "trainables, groups, recordings, inputs). TLC checks ChannelParamsExactlyWherePresent, RegistryMatchesTables, "
             "RefsExist, DeleteUndoesInsert, DeleteKeepsOthers, IntegrateIsPure ... on all histories to depth 3-4 over operation x "
             "view x value; the state graph to depth 2 (full alphabet) and depth 3 (channel alphabet, sampled in quick) is executed "
             "on the real cell: after every call every public table, get_all_parameters/get_all_states and (where recordings "
             "exist) integrate's output must equal the specification's successor state / integer observation. Recorded random histories "
             "(code -> spec) are validated by TLC against Trace_Module.tla. Second stage: set_ncomp sequences (SetNcomp.tla) on cells "
             "that carry channels, per-branch parameters and groups, compared with the directly built module. Third stage: NetSim.tla "
             "histories on networks with synapses (connect, then recordings / clamps / trainables of synapses made and deleted through "
             "type, k-th-edge and node-selection views while voltage recordings of every compartment exist), replayed on the real network.",
        note="Trusted: TLC; probe channels make the dynamics integer exact; one irregular cell, 7 views. No known finding is left for this property."
             ""),
    "C10": dict(
        technique="same TLA+ module specification restricted to the parameter alphabet (insert/set/make_trainable/"
                  "delete_trainables/write_trainables/record) to depth 3; replay with Eff(k) compare and metamorphic "
                  "set == data_set == make_trainable+params on every Set transition",
        category="model_checking", design="4/C10",
        text="Eff(k) (table column overridden by the trainables on exactly their groups' rows) is part of the abstract state; "
             "TrainablesTouchOnlyTheirRows / TrainablesReachTheirRows / WriteStoresSimulated are checked by TLC; every replayed "
             "transition compares get_all_parameters/get_all_states with Eff, and every Set transition is also performed via "
             "data_set and via make_trainable and simulated. Second stage (synaptic parameters): every weight-edit history of NetSim.tla "
             "is replayed through .set, data_set or make_trainable against the same specification state (views: type, k-th edge, "
             "node selections holding both synapse types). Geometry as a user channel sees it: radius / length / axial_resistivity "
             "supplied by set, data_set, make_trainable + params and write_trainables must give the same simulation.",
        note="Trusted: TLC; value tokens {1,2}; sharing by module/branch/compartment; views include ones that exclude the "
             "module's last compartment."),
    "C11": dict(
        technique="TLA+ state machine of view selection (Views.tla) model-checked by TLC; the complete closed state graph "
                  "(-dump dot,actionlabels) is replayed transition by transition on the real module, disabled selectors must raise",
        category="model_checking", design="4/C11",
        text="Views.tla defines what every selector denotes (dense local ranks inside the current view, scope, edge inclusion, "
             "groups, channel and synapse-type views, loc, select). TLC computes the closed state graph of the selector alphabet on "
             "three irregular modules (all chains of any length), checks EdgesAmongRows, DenseLocal, NonEmpty and Narrowing, and "
             "every transition of the graph is executed on the real jaxley with rotating index forms (int, list, array, range, "
             "slice, mask, all); every selector the specification disables must raise; iteration and lazy [] are compared with "
             "the method form. ViewWrites.tla (second sentence of the property): two HELD views with arbitrary row sets, every sequence of "
             "<= 3 add_to_group / set / record / stimulate calls through them; a hash sample is replayed with the views created "
             "before the calls.",
        note="Trusted: TLC, the dot parser. Bounded to 3 modules and index sets over 0..2; write confinement of mutating "
             "calls is decided by C19/C10 (projection compare after every call)."),
    "C01": dict(
        technique="TLA+ spec over Z_p (Field/Morph/Cable/Hines/Csc) model-checked by TLC on every forest x compartment "
                  "counts; field-generic evaluator cross-checked against TLC mod p; spec->code replay of every "
                  "enumerated configuration with residual oracle",
        category="model_checking", design="4/C01",
        text="TLC exhaustively checks, for every forest with <= 4 branches (cells and networks, every sibling order) and every "
             "compartment-count vector in 1..3 (thorough: <= 5 branches, counts up to 5), that the Hines state machine on the padded "
             "slot layout produces the unique solution of the independently stated cable system, that the CSC triple denotes the "
             "same matrix and that Crank-Nicolson as coded is the trapezoidal scheme (identities over Z_p, 2-3 seeds). Every "
             "enumerated configuration is then built with the real jaxley and one step of every (solver, backend) pair is checked "
             "against the specification's system by row-wise backward error; backends must agree up to cond*eps.",
        note="Trusted: TLC, Schwartz-Zippel (p=46337), numpy for evaluating residuals, float64. Trees beyond the bound are not "
             "covered. A backend that raises is 'refused' (allowed)."),
    "C02": dict(
        technique="TLC-checked field identities (Conservation, Reciprocity, UniformStaysUniform, RowSumIdentity) of the same "
                  "TLA+ spec over Z_p; replay on the real jitted step function with cond-scaled tolerances",
        category="model_checking", design="4/C02",
        text="The four identities are invariants of the TLA+ model checked by TLC on every enumerated morphology; the same "
             "statements are measured on the real code (3 backends, dt from 1e-3 to 1e9 ms, reciprocity for all pairs).",
        note="Maximum principle follows from RowSumIdentity + subtraction-free off-diagonals (M-matrix theorem, trusted). "
             "Tolerances follow the backward-error model (cond*eps)."),
}

NOT_BUILT_REASON = "check not built yet (build in progress; see DESIGN.md section 4)"


def main():
    props = [json.loads(l) for l in open(os.path.join(ROOT, "properties.jsonl"))]
    try:
        hook_commits = subprocess.run(["git", "-C", "/repo", "log", "--format=%h", "--grep=^verif-hook"], capture_output=True,
                                      text=True).stdout.split()
    except Exception:
        hook_commits = []
    checks = []
    for pid, c in CHECKS.items():
        checks.append({
            "property_id": pid,
            "quick_cmd": "./check %s --tier quick" % pid,
            "thorough_cmd": "./check %s --tier thorough" % pid,
            "evidence_file": "evidence/%s.json" % pid,
            "replay_cmd_template": "cat {path}",
            "engine": "tlc+harness",
            "technique": c["technique"],
            "level_claimed": {"category": c["category"], "text": c["text"], "design_ref": "DESIGN.md section " + c["design"]},
            "level_note": c["note"],
        })
    m = {
        "version": 1,
        "setup_cmd": "cd /verif && ./setup.sh",
        "hooks": {
            "guard": "JAXLEY_VERIF",
            "enable": "JAXLEY_VERIF=1 PYTHONPATH=/repo /venv/bin/python (jaxley is imported from /repo's working tree; no build step)",
            "baseline_off_cmd": "cd /repo && env -u JAXLEY_VERIF /venv/bin/python -m pytest -ra -q -p no:cacheprovider --timeout=900 "
                                "--continue-on-collection-errors --junitxml=/tmp/baseline_off.junit.xml",
            "source_commits": hook_commits,
            "add_only": True,
        },
        "engines": [
            {"name": "tlc+harness", "path": "spec/ harness/",
             "serves_properties": sorted(CHECKS),
             "kind_free_text": "explicit TLA+ specifications model-checked by TLC; Python harness replays TLC behaviours on "
                               "the real jaxley and validates recorded traces against the specifications"}],
        "checks": checks,
        "notes": "See DESIGN.md. Exit codes: 0 held, 1 violation (VIOLATION line), 2 machinery failure.",
        "not_applicable": [{"property_id": p["id"], "reason": NOT_BUILT_REASON} for p in props if p["id"] not in CHECKS],
    }
    with open(os.path.join(ROOT, "MANIFEST.json"), "w") as f:
        json.dump(m, f, indent=1)
    try:
        import jsonschema
        jsonschema.validate(m, json.load(open("/root/.vp/MANIFEST.schema.json")))
    except ImportError:
        pass
    print("MANIFEST.json written: %d checks" % len(checks))


if __name__ == "__main__":
    main()

"""C12: assembly preserves constituents; uncoupled parts simulate independently; sibling order only permutes.

usage: python -m harness.assembly_check            (driver)
       python -m harness.assembly_check <job> <out>   (worker)
"""
import json
import os
import sys
from collections import Counter

from harness import common as C
from harness import cable_checks as CC

BACKENDS = ["jaxley.stone", "jaxley.thomas", "jax.sparse"]


def worker():
    from harness.jaxsetup import jax, jnp, np, jx, build_forest
    from harness import evaluator as ev
    from jaxley.channels import Leak, Na, K, Km, HH, CaL
    from jaxley.integrate import build_init_and_step_fn
    job = json.load(open(sys.argv[1]))
    res = {"networks": 0, "swaps": 0, "steps": 0, "refused": 0, "tables": 0, "mismatch": []}

    def decorate(mod, keys, seed):
        """per-compartment parameters as a function of the compartment's KEY (so they follow the compartment)"""
        def val(k, j, lo, hi):
            r = np.random.default_rng([seed, int(k), j]).uniform(lo, hi)
            return float(r)
        n = len(mod.nodes)
        mod.set("radius", np.asarray([val(k, 0, 0.5, 3.0) for k in keys]))
        mod.set("length", np.asarray([val(k, 1, 5.0, 60.0) for k in keys]))
        mod.set("axial_resistivity", np.asarray([val(k, 2, 100.0, 3000.0) for k in keys]))
        mod.set("capacitance", np.asarray([val(k, 3, 0.5, 2.0) for k in keys]))
        mod.set("v", np.asarray([val(k, 4, -90.0, -30.0) for k in keys]))
        leak = [i for i, k in enumerate(keys) if int(k) % 3 != 0]
        if leak:
            mod.select(nodes=leak).insert(Leak())
            mod.select(nodes=leak).set("Leak_gLeak", np.asarray([val(keys[i], 5, 1e-5, 1e-3) for i in leak]))
        hh = [i for i, k in enumerate(keys) if int(k) % 4 == 1]
        if hh:
            mod.select(nodes=hh).insert(HH())
        return mod

    def run(mod, vs, nsteps=3, dt=0.025):
        mod.to_jax()
        init_fn, step_fn = build_init_and_step_fn(mod, voltage_solver=vs)
        st, params = init_fn([], None, None, dt)
        out = []
        with jax.disable_jit():
            for _ in range(nsteps):
                st = step_fn(st, params, {}, {}, dt)
                out.append(np.asarray(st["v"], dtype=float))
        return np.stack(out)

    def keys_of(parents, ncomp, blab, NC=3):
        m = ev.Morph(parents, ncomp)
        return [m.key(c, blab, NC) for c in range(m.ncomps)]

    for it in job["items"]:
        parents, ncomp, blab = it["parents"], it["ncomp"], it["blab"]
        seed = it["k"]
        keys = keys_of(parents, ncomp, blab)
        sig = {"kind": it["kind"]}
        try:
            whole = decorate(build_forest(parents, ncomp), keys, seed)
        except Exception as e:
            res["mismatch"].append({**sig, "what": "build raised", "cfg": it, "err": str(e)[:150]})
            continue
        if it["kind"] == "network":
            res["networks"] += 1
            roots = [b for b, p in enumerate(parents) if p == 0] + [len(parents)]
            off = 0
            for ci in range(len(roots) - 1):
                lo, hi = roots[ci], roots[ci + 1]
                sub_par = [0 if parents[b] == 0 else parents[b] - lo for b in range(lo, hi)]
                sub_nc = ncomp[lo:hi]
                sub_keys = keys_of(sub_par, sub_nc, blab[lo:hi])
                part = decorate(build_forest(sub_par, sub_nc), sub_keys, seed)
                n = len(part.nodes)
                # tables: every constituent compartment keeps its parameters, states and channels under contiguous indices
                cols = [c for c in part.nodes.columns if not c.startswith(("global_", "local_")) and c != "controlled_by_param"]
                a = whole.nodes.iloc[off:off + n][[c for c in cols if c in whole.nodes.columns]].reset_index(drop=True)
                b = part.nodes[[c for c in cols if c in whole.nodes.columns]].reset_index(drop=True)
                res["tables"] += 1
                same = all(np.array_equal(a[c].to_numpy(), b[c].to_numpy()) or
                           np.allclose(a[c].to_numpy(dtype=float), b[c].to_numpy(dtype=float), rtol=0, atol=0, equal_nan=True) for c in a.columns)
                missing = [c for c in cols if c not in whole.nodes.columns]
                if not same or missing or [int(x) for x in whole.nodes["global_comp_index"]] != list(range(len(whole.nodes))):
                    res["mismatch"].append({**sig, "what": "assembled table differs from the constituent", "cfg": it, "cell": ci})
                for vs in BACKENDS:
                    try:
                        vw = run(whole, vs)
                    except Exception:
                        res["refused"] += 1
                        continue
                    try:
                        vp = run(part, vs)
                    except Exception:
                        res["refused"] += 1
                        continue
                    res["steps"] += 1
                    if not np.allclose(vw[:, off:off + n], vp, rtol=1e-12, atol=1e-11):
                        res["mismatch"].append({**sig, "what": "cell inside a network without synapses differs from the cell alone",
                                                "cfg": it, "cell": ci, "voltage_solver": vs,
                                                "maxdiff": float(np.max(np.abs(vw[:, off:off + n] - vp)))})
                off += n
        else:
            # swapped leaf siblings: it["swap"] = (b1, b2) 1-based; the other listing order only permutes the results
            b1, b2 = it["swap"]
            nc2, bl2 = list(ncomp), list(blab)
            nc2[b1 - 1], nc2[b2 - 1] = nc2[b2 - 1], nc2[b1 - 1]
            bl2[b1 - 1], bl2[b2 - 1] = bl2[b2 - 1], bl2[b1 - 1]
            keys2 = keys_of(parents, nc2, bl2)
            other = decorate(build_forest(parents, nc2), keys2, seed)
            res["swaps"] += 1
            pos2 = {k: i for i, k in enumerate(keys2)}
            perm = [pos2[k] for k in keys]
            for vs in BACKENDS:
                try:
                    va, vb = run(whole, vs), run(other, vs)
                except Exception:
                    res["refused"] += 1
                    continue
                res["steps"] += 1
                if not np.allclose(va, vb[:, perm], rtol=1e-12, atol=1e-11):
                    res["mismatch"].append({**sig, "what": "listing sibling branches in a different order changes the results", "cfg": it,
                                            "voltage_solver": vs, "maxdiff": float(np.max(np.abs(va - vb[:, perm])))})
    # heterogeneous constituents with shared parameter names; degenerate assemblies
    if job.get("extras"):
        comp = jx.Compartment()
        try:
            # Compartment -> Branch -> Cell -> Network with different channels / parameters per constituent
            c1, c2, c3 = jx.Compartment(), jx.Compartment(), jx.Compartment()
            c1.insert(Na()); c1.insert(K()); c1.set("vt", -55.0); c1.set("radius", 2.0)
            c2.insert(K()); c2.insert(Km()); c2.set("eK", -85.0); c2.set("length", 20.0)
            c3.insert(Leak()); c3.set("v", -61.0)
            br1 = jx.Branch([c1, c2, c3])
            br2 = jx.Branch([c3, c3])
            cellA = jx.Cell([br1, br2], parents=[-1, 0])
            cellB = jx.Cell([jx.Branch([c2])], parents=[-1])
            cellB.insert(CaL())
            net = jx.Network([cellA, cellB, cellA])
            res["tables"] += 1
            want_rows = [c1, c2, c3, c3, c3, c2, c1, c2, c3, c3, c3]
            for r, src in enumerate(want_rows):
                row = net.nodes.iloc[r]
                srow = src.nodes.iloc[0]
                for col in net.nodes.columns:
                    if col.startswith(("global_", "local_")) or col == "controlled_by_param":
                        continue
                    have = col in src.nodes.columns
                    if r == 5 and col in ("CaL", "CaL_gCaL", "eCa", "CaL_q", "CaL_r"):
                        continue                   # cellB got CaL after assembly of the compartment
                    val = row[col]
                    if have:
                        sv = srow[col]
                        ok = (val == sv) or (isinstance(sv, float) and np.isnan(sv) and np.isnan(val))
                    else:
                        ok = (val is False or val == False) if net.nodes[col].dtype == bool or isinstance(val, (bool, np.bool_)) else np.isnan(val)  # noqa: E712
                    if not ok:
                        res["mismatch"].append({"kind": "tables", "what": "assembly does not preserve a constituent's value / absent channel not absent",
                                                "row": r, "column": col, "got": str(val)})
            # the registry of mechanisms is the union of the constituents' (RegistryMatchesTables of JaxleyModule.tla): every channel
            # of every constituent is registered, its indicator column is a proper boolean (False, not NaN, where absent), currents too
            want_chans = sorted({c_._name for m_ in (c1, c2, c3, cellB) for c_ in m_.channels})
            got_chans = sorted(c_._name for c_ in net.channels)
            want_curs = sorted({c_.current_name for m_ in (c1, c2, c3, cellB) for c_ in m_.channels})
            if got_chans != want_chans or sorted(set(net.membrane_current_names)) != want_curs:
                res["mismatch"].append({"kind": "tables", "what": "assembled module does not register the union of its constituents' channels",
                                        "got": [got_chans, sorted(set(net.membrane_current_names))], "want": [want_chans, want_curs]})
            for name in want_chans:
                colv = net.nodes[name] if name in net.nodes.columns else None
                if colv is None or colv.isna().any() or not set(colv.unique()) <= {True, False}:
                    res["mismatch"].append({"kind": "tables", "what": "channel indicator column is not a clean boolean", "column": name})
            # and the assembled network simulates each constituent exactly as it simulates alone (no synapses)
            for vs in BACKENDS:
                try:
                    v_net = run(net, vs)
                    v_a, v_b = run(cellA, vs), run(cellB, vs)
                    res["steps"] += 1
                    want_v = np.concatenate([v_a, v_b, v_a], axis=1)
                    if v_net.shape != want_v.shape or not np.allclose(v_net, want_v, rtol=1e-12, atol=1e-10):
                        res["mismatch"].append({"kind": "tables", "what": "heterogeneous network differs from its cells simulated alone",
                                                "voltage_solver": vs, "maxdiff": float(np.max(np.abs(v_net - want_v))) if v_net.shape == want_v.shape else None})
                except Exception as e:
                    if "indexer only supports" in str(e):
                        continue            # documented refusal of jaxley.stone / jaxley.thomas for unequal compartment counts
                    res["mismatch"].append({"kind": "tables", "what": "heterogeneous network raised in simulation", "voltage_solver": vs,
                                            "err": type(e).__name__ + ": " + str(e)[:160]})
            brE1, brE2 = jx.Branch([c1, c2]), jx.Branch([c2, c3])
            cellE1 = jx.Cell([brE1, brE2], parents=[-1, 0])
            cellE2 = jx.Cell([brE2], parents=[-1])
            netE = jx.Network([cellE2, cellE1])
            for vs in BACKENDS:
                try:
                    v_net, v_1, v_2 = run(netE, vs), run(cellE1, vs), run(cellE2, vs)
                    res["steps"] += 1
                    want_v = np.concatenate([v_2, v_1], axis=1)
                    if v_net.shape != want_v.shape or not np.allclose(v_net, want_v, rtol=1e-12, atol=1e-10):
                        res["mismatch"].append({"kind": "tables", "what": "heterogeneous network differs from its cells simulated alone",
                                                "voltage_solver": vs, "maxdiff": float(np.max(np.abs(v_net - want_v))) if v_net.shape == want_v.shape else None})
                except Exception as e:
                    if "indexer only supports" in str(e):
                        continue
                    res["mismatch"].append({"kind": "tables", "what": "heterogeneous network raised in simulation", "voltage_solver": vs,
                                            "err": type(e).__name__ + ": " + str(e)[:160]})
            if [int(x) for x in net.nodes["global_comp_index"]] != list(range(11)) or \
               [int(x) for x in net.nodes["global_cell_index"]] != [0] * 5 + [1] + [2] * 5 or \
               [int(x) for x in net.nodes["global_branch_index"]] != [0, 0, 0, 1, 1, 2, 3, 3, 3, 4, 4]:
                res["mismatch"].append({"kind": "tables", "what": "global indices of the assembled network are not contiguous"})
        except Exception as e:
            res["mismatch"].append({"kind": "tables", "what": "assembly raised", "err": type(e).__name__ + ": " + str(e)[:200]})
        # a one-branch cell is the branch alone; a one-compartment branch is the compartment alone
        try:
            c = jx.Compartment()
            c.insert(HH()); c.set("radius", 1.7); c.set("v", -63.0)
            b1 = jx.Branch([c]); cell1 = jx.Cell([b1], parents=[-1]); net1 = jx.Network([cell1])
            b3 = jx.Branch(c, ncomp=3); b3.set("length", np.asarray([10.0, 20.0, 30.0])); cell3 = jx.Cell([b3], parents=[-1])
            for vs in BACKENDS:
                ref = run(c, vs)
                for other, name in ((b1, "branch"), (cell1, "cell"), (net1, "network")):
                    res["steps"] += 1
                    if not np.allclose(run(other, vs), ref, rtol=1e-13, atol=1e-12):
                        res["mismatch"].append({"kind": "degenerate", "what": "one-compartment %s differs from the compartment alone" % name,
                                                "voltage_solver": vs})
                res["steps"] += 1
                if not np.allclose(run(cell3, vs), run(b3, vs), rtol=1e-13, atol=1e-12):
                    res["mismatch"].append({"kind": "degenerate", "what": "one-branch cell differs from the branch alone", "voltage_solver": vs})
        except Exception as e:
            res["mismatch"].append({"kind": "degenerate", "what": "raised", "err": type(e).__name__ + ": " + str(e)[:200]})
    json.dump(res, open(sys.argv[2], "w"), default=str)


def main():
    import random
    chk = C.Check("C12", "model_checking")
    quick = C.tier() == "quick"
    rnd = random.Random(C.seed())
    nb = 3 if quick else 4
    res, cfgs = CC.run_tlc_enum("c12", nb, 3, ["HinesSolvesCable", "MetamorphicAgrees"], 21 + C.seed(), False, workers=C.NCPU, metamorphic=True)
    if res.violated:
        chk.violation({"tlc_invariant": res.violated}, res.out[-2500:])
        return chk.finish()
    if not res.ok:
        raise C.MachineryError("TLC failed:\n" + res.out[-2000:])
    phases = Counter(c["phase"] for c in cfgs if c["pc"] == "Done")
    for need in ("first", "isolated", "swapped"):
        if phases[need] == 0:
            raise C.MachineryError("vacuity: no %s run reached Done" % need)
    # replay: every network of the enumeration (cells alone vs inside the network) and every leaf-sibling swap
    firsts = [c for c in cfgs if c["phase"] == "first"]
    items = []
    for k, c in enumerate(firsts):
        par, nc = c["parents"], c["ncomp"]
        if sum(1 for p in par if p == 0) > 1:
            items.append({"k": k, "kind": "network", "parents": par, "ncomp": nc, "blab": c["blab"]})
        kids = {}
        for b, p in enumerate(par):
            kids.setdefault(p, []).append(b + 1)
        leaf = lambda b: (b not in par)
        for p, bs in kids.items():
            if p == 0:
                continue
            ls = [b for b in bs if leaf(b)]
            for i in range(len(ls)):
                for j in range(i + 1, len(ls)):
                    if nc[ls[i] - 1] != nc[ls[j] - 1] or True:
                        items.append({"k": k, "kind": "swap", "parents": par, "ncomp": nc, "blab": c["blab"], "swap": [ls[i], ls[j]]})
    # larger networks / trees than the TLC bound for the replay (thorough), sampled for quick
    extra = [(p, n) for p, n in CC.forests(4, 3) if len(p) == 4 and sum(1 for x in p if x == 0) > 1]
    for k, (p, n) in enumerate(rnd.sample(extra, 40 if quick else 300)):
        items.append({"k": 10000 + k, "kind": "network", "parents": list(p), "ncomp": list(n), "blab": list(range(1, len(p) + 1))})
    if quick:
        nets = [i for i in items if i["kind"] == "network"]
        swaps = [i for i in items if i["kind"] == "swap"]
        items = rnd.sample(nets, min(len(nets), 110)) + rnd.sample(swaps, min(len(swaps), 60))
    jobs = [{"items": ch, "extras": i == 0} for i, ch in enumerate(C.chunks(items, C.NCPU * 2))]
    outs = C.run_workers("assembly_check", jobs, timeout=3000)
    tot = Counter()
    for o in outs:
        for k in ("networks", "swaps", "steps", "refused", "tables"):
            tot[k] += o[k]
        for m in o["mismatch"]:
            chk.violation({"kind": m["kind"], "what": m["what"]}, m)
    chk.set("states", res.distinct)
    chk.set("transitions", res.generated)
    chk.set("tlc_runs_by_phase", dict(phases))
    chk.set("traces_validated_against_impl", tot["networks"] + tot["swaps"])
    chk.set("networks_vs_cells_alone", tot["networks"])
    chk.set("sibling_swaps", tot["swaps"])
    chk.set("simulation_comparisons", tot["steps"])
    chk.set("refused_by_backend", tot["refused"])
    chk.set("table_comparisons", tot["tables"])
    chk.set("exhaustive", True)
    chk.set("evaluations", tot["networks"] + tot["swaps"])
    chk.set("distinct_nontrivial", len(items))
    chk.set("rule", "TLC: for every forest with <= %d branches the Hines machine is re-run on each cell taken out of the network (Isolate) and "
                    "on every exchange of two sibling leaf branches; MetamorphicAgrees (same voltages by compartment key) is an invariant "
                    "over Z_p. Replay: networks without synapses vs their cells alone (tables + 3 steps on every accepting backend), sibling "
                    "swaps, heterogeneous Compartment->Branch->Cell->Network assembly with shared parameter names, degenerate assemblies" % nb)
    for i in items[:3]:
        chk.sample({k: i[k] for k in ("kind", "parents", "ncomp") if k in i})
    chk.assume("TLC; Schwartz-Zippel", "parameters are functions of the compartment key, so they follow a compartment into every assembly",
               "backends that refuse a network (different paddings) are not compared")
    return chk.finish()


if __name__ == "__main__":
    if len(sys.argv) == 3:
        worker()
    else:
        C.main_wrapper(main)

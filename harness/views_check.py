"""C11: Views.tla model-checked by TLC; the complete (closed) state graph is replayed on the real code.

usage: python -m harness.views_check
"""
import collections
import itertools
import json
import os
import sys
from concurrent.futures import ThreadPoolExecutor

from harness import common as C

SHAPES = ["A", "B", "C"]


def run_shape(s):
    dot = os.path.join(C.WORK, "views_%s.dot" % s)
    res = C.run_tlc("MC_Views", "MC_Views_%s.cfg" % s, "views_" + s, workers=5, timeout=900, dump=dot, coverage=True)
    return s, res, dot


def tla_set(xs):
    return "{" + ", ".join(str(x) for x in sorted(xs)) + "}"


def alphabet(model):
    """The selector alphabet of MC_Views.Next as dot action labels (for the refusal check)."""
    labs = []
    idxsets = [c for k in (1, 2, 3) for c in itertools.combinations(range(3), k)]
    levels = {"network": ["cell", "branch", "comp"], "cell": ["branch", "comp"], "branch": ["comp"]}[model["kind"]]
    for lv in levels:
        labs += ['Select("%s",%s)' % (lv, tla_set(I)) for I in idxsets]
        labs.append('SelectAll("%s")' % lv)
    labs += ["SelectNodes(%s)" % tla_set(S) for S in model["nodesets"]]
    labs += ["SelectEdges(%s)" % tla_set(S) for S in model["edgesets"]]
    labs += ['Group("%s")' % g for g in model["groups"]]
    labs += ['Chan("%s")' % c for c in model["chans"]]
    labs += ['Syn("%s")' % t for t in ("Iono", "Test")]
    labs += ["EdgeG(%s)" % tla_set(I) for k in (1, 2, 3, 4) for I in itertools.combinations(range(4), k)]
    labs += ["EdgeL(%s)" % tla_set(I) for k in (1, 2, 3) for I in itertools.combinations(range(3), k)]
    labs += ["Loc(%d)" % k for k in range(7)]
    return labs


def norm_label(l):
    return l.replace(" ", "")


def main():
    chk = C.Check("C11", "model_checking")
    with ThreadPoolExecutor(3) as ex:
        runs = list(ex.map(run_shape, SHAPES))
    jobs = []
    states = trans = 0
    meta = []
    spec_only = 0
    for s, res, dot in runs:
        if res.violated:
            chk.violation({"tlc_invariant": res.violated, "shape": s}, res.out[-3000:])
            continue
        if not res.ok:
            raise C.MachineryError("TLC failed on shape %s:\n%s" % (s, res.out[-2000:]))
        cov = res.coverage()
        for act in ["Select", "SelectAll", "SetScope", "SelectNodes", "Group", "Chan", "Loc"] + (["Syn", "EdgeG", "EdgeL", "SelectEdges"] if s != "B" else []):
            if cov.get(act, (0, 0))[1] == 0:
                raise C.MachineryError("vacuity: action %s never taken on shape %s" % (act, s))
        line = res.printed("MODEL")[0]
        model = json.loads(line[line.index('"{') + 1: line.rindex('}"') + 1].replace('\\"', '"'))
        nodes, edges, inits = C.parse_dot(dot)
        os.remove(dot)
        states += len(nodes)
        trans += len(edges)
        adj = collections.defaultdict(list)
        for a, b, l in edges:
            adj[a].append((l, b))
        # loc() exactly at an interior compartment boundary of some branch in view: the other admissible
        # compartment may lie outside the view, so a refusal is an admissible outcome as well
        ncomp_of = {}
        r = 0
        for cell in model["shape"]:
            for k in cell:
                for _ in range(k):
                    ncomp_of[r] = k
                    r += 1
        may_refuse_of = {nid: ["Loc(%d)" % num for num in range(1, model["locden"])
                               if any((num * ncomp_of[x]) % model["locden"] == 0 for x in st["rows"])]
                         for nid, st in nodes.items()}
        path = {inits[0]: []}
        q = collections.deque([inits[0]])
        # paths only use deterministic transitions: loc() exactly at a compartment boundary has two
        # admissible successors in the specification and the code cannot be steered to either
        while q:
            a = q.popleft()
            nsucc = collections.Counter(l for l, _ in set(adj[a]))
            for l, b in adj[a]:
                if b not in path and nsucc[l] == 1 and l not in may_refuse_of[a]:
                    path[b] = path[a] + [l]
                    q.append(b)
        spec_only += len(nodes) - len(path)
        alpha = alphabet(model)
        sts = []
        for nid, st in nodes.items():
            if nid not in path:
                continue
            def lei_of(b):
                if not nodes[b]["haslei"] or not nodes[b]["eds"]:
                    return None
                f = nodes[b]["lei"]
                f = dict(enumerate(f, start=1)) if isinstance(f, tuple) else f      # TLC prints <<..>> for domain 1..n
                return sorted([int(e), int(x)] for e, x in f.items())
            out = [[l, sorted(nodes[b]["rows"]), sorted(nodes[b]["eds"]), nodes[b]["scope"], lei_of(b)] for l, b in adj[nid]]
            may_refuse = may_refuse_of[nid]
            enabled = {norm_label(l) for l, _ in adj[nid]}
            refused = [l for l in alpha if norm_label(l) not in enabled]
            # the same call `.edge(I)` is EdgeG in global and EdgeL in local scope
            refused = [l for l in refused if not (l.startswith("EdgeG") and st["scope"] == "local")
                       and not (l.startswith("EdgeL") and st["scope"] == "global")]
            refused = [l for l in refused if l not in may_refuse]
            # F17 (repaired in /repo): a channel / synapse-type view of a view that contains none of it used to return the
            # whole view instead of refusing; these selectors are kept apart so that a regression is reported under its own signature
            quirk = [l for l in refused if l.startswith("Chan(") or l.startswith("Syn(")]
            refused = [l for l in refused if l not in quirk]
            sts.append({"path": path[nid], "out": out, "refused": refused, "quirk": quirk, "lazy": len(path[nid]) <= 1, "may_refuse": may_refuse,
                        "rows": sorted(st["rows"])})
        meta.append((s, model, len(sts)))
        for ch in C.chunks(sts, 6):
            jobs.append({"model": model, "shape": s, "states": ch})
    outs = C.run_workers("replay_views", jobs)
    # ---- second sentence of C11: mutating calls through held views (ViewWrites.tla) ----
    cfgw = os.path.join(C.WORK, "viewwrites.cfg")
    C.write_cfg(cfgw, spec="Spec", constants={"N": 5, "MaxCalls": 3, "SAMPLE": 150 if C.tier() == "quick" else 25, "SEEDK": C.seed()},
                invariants=["GroupIsTheUnionOfItsCallers", "OnlyRowsOfTheCallersAreSet", "RecordedExactlyOnce", "EveryStimulusOnItsRows"],
                constraints=["Emit"])
    resw = C.run_tlc("MC_ViewWrites", cfgw, "viewwrites", timeout=900)
    if resw.violated:
        chk.violation({"tlc_invariant": resw.violated}, resw.out[-2000:])
    elif not resw.ok:
        raise C.MachineryError("ViewWrites.tla failed:\n" + resw.out[-2000:])
    wsts = [json.loads(l[l.index('"{') + 1: l.rindex('}"') + 1].replace('\\"', '"')) for l in resw.printed("VW")]
    if len(wsts) < 1000:
        raise C.MachineryError("ViewWrites.tla emitted only %d states" % len(wsts))
    wouts = C.run_workers("replay_viewwrites", [{"states": ch} for ch in C.chunks(wsts, C.NCPU)])
    nw = ncalls = nchain = 0
    for o in wouts:
        nw += o["states"]
        ncalls += o["calls"]
        nchain += o["chain_views"]
        for mm in o["mismatch"]:
            chk.violation({"kind": mm["kind"], "op": mm["op"]}, mm)
    wstates, wtrans = resw.distinct, resw.generated
    tot = collections.Counter()
    forms = collections.Counter()
    for job, o in zip(jobs, outs):
        for k in ("transitions", "refusals", "iter", "lazy"):
            tot[k] += o[k]
        forms.update(o["forms"])
        for mm in o["mismatch"]:
            sig = {"shape": job["shape"], "kind": mm["kind"], "selector": (mm.get("label") or "").split("(")[0]}
            if mm["kind"] == "not_refused" and sig["selector"] in ("Chan", "Syn"):
                sig["what"] = "channel/synapse-type view of a view without that mechanism returns the whole view"
            chk.violation(sig, mm)
    if tot["transitions"] < trans * 0.8:
        raise C.MachineryError("replayed %d of %d transitions" % (tot["transitions"], trans))
    chk.set("states", states + wstates)
    chk.set("transitions", trans + wtrans)
    chk.set("traces_validated_against_impl", tot["transitions"] + tot["refusals"])
    chk.set("replayed_transitions", tot["transitions"])
    chk.set("refusals_confirmed", tot["refusals"])
    chk.set("iteration_views_compared", tot["iter"])
    chk.set("lazy_index_views_compared", tot["lazy"])
    chk.set("index_forms_used", dict(forms))
    chk.set("held_view_histories_replayed", nw)
    chk.set("held_view_calls", ncalls)
    chk.set("held_views_built_from_selector_chains", nchain)
    chk.set("exhaustive", True)
    chk.set("states_only_reachable_through_boundary_loc_choices_not_replayed", spec_only)
    chk.set("evaluations", tot["transitions"] + tot["refusals"])
    chk.set("distinct_nontrivial", states)
    chk.set("rule", "closed state graph (all chains of any length) of the selector alphabet {cell, branch, comp} x index sets over 0..2, "
                    "'all', scope switches, select(nodes/edges), groups, channel and synapse-type views, edge (global scope), "
                    "loc at k/6 (compartment boundaries included: either neighbour allowed) on 3 irregular modules; every "
                    "transition replayed, every disabled selector must raise; distinct_nontrivial = distinct views. ViewWrites.tla: two held views "
                    "with arbitrary row sets, every sequence of <= 3 add_to_group / set / record / stimulate calls through them (562 185 states), "
                    "a hash sample replayed with the views created BEFORE the calls")
    for s, model, n in meta:
        chk.sample({"shape": model["shape"], "edges": model["edges"], "views": n})
    chk.assume("TLC", "index masks only where their length is unambiguous; tuple indices and negative indices are refused by the code",
               ".edge() in local scope raises KeyError('local_edge_index') (refusal, allowed)")
    return chk.finish()


if __name__ == "__main__":
    C.main_wrapper(main)

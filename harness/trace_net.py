"""Worker: records random wiring / editing histories from the real jaxley network for Trace_Net.tla (code -> spec).

job: {"model": {...}, "seeds": [...], "length": n, "layout": name}   ->   {"traces": [[event, ...], ...]}
"""
import json
import random
import sys

from harness.jaxsetup import jax, jnp, np, jx
from harness import probes
from harness.probes import tok
from jaxley.connect import connect

T = 2
LAYOUTS = {"three_cables": [[2], [2], [2]], "two_branched_cells": [[1, 2], [1, 2]]}
CM = [1.0, 2.0, 0.5, 1.0, 4.0, 0.25]


def random_event(rng, nedges):
    ops = ["connect"] * (4 if nedges < 3 else 1) + ["setw", "setw", "sets", "record", "record", "delrec", "clamp", "stim", "trainw", "trainw", "deltrain"]
    if nedges >= 6:
        ops = [o for o in ops if o != "connect"]
    op = rng.choice(ops)
    kind = rng.choice(["type", "kth", "kth", "rows"])
    ev = {"kind": kind, "ty": rng.choice(["P", "Q"]), "k": rng.choice([0, 1, 2]) if kind == "kth" else (rng.choice([1, 2, 3, 4]) if kind == "rows" else 0)}
    e = {"op": op}
    if op == "connect":
        e.update(pre=rng.randrange(6), post=rng.randrange(6), ty=rng.choice(["P", "Q"]))
    elif op == "setw":
        e.update(x=rng.choice([0, 2]), ev=ev)
    elif op == "sets":
        e.update(x=3, ev=ev)
    elif op == "record":
        if ev["kind"] == "rows":
            ev = {"kind": "type", "ty": ev["ty"], "k": 0}
        e.update(what=rng.choice(["s", "i"]), ev=ev)
    elif op in ("delrec", "deltrain"):
        if ev["kind"] == "rows":
            ev["ty"] = "P"
        e.update(ev=ev)
    elif op == "clamp":
        if ev["kind"] == "rows":
            ev = {"kind": "type", "ty": ev["ty"], "k": 0}
        e.update(ev=ev)
    elif op == "stim":
        e.update(row=rng.randrange(6))
    elif op == "trainw":
        if ev["kind"] == "rows":
            ev = {"kind": "type", "ty": ev["ty"], "k": 0}
        e.update(x=3, ev=ev, each=rng.choice([True, False]))
    return e


def view(net, ev, rowsets):
    if ev["kind"] == "rows":
        return net.select(nodes=[int(r) for r in rowsets[int(ev["k"]) - 1]])
    v = getattr(net, ev["ty"])
    return v if ev["kind"] == "type" else v.edge(int(ev["k"]))


def apply(net, e, nin, rowsets):
    """performs the call; returns the new input counter"""
    op = e["op"]
    if op == "connect":
        connect(net.select(nodes=[e["pre"]]), net.select(nodes=[e["post"]]), probes.SYN[e["ty"]]())
    elif op == "setw":
        view(net, e["ev"], rowsets).set(e["ev"]["ty"] + "_w", float(e["x"]))
    elif op == "sets":
        view(net, e["ev"], rowsets).set(e["ev"]["ty"] + "_s", float(e["x"]))
    elif op == "record":
        view(net, e["ev"], rowsets).record((e["ev"]["ty"] + "_s") if e["what"] == "s" else ("i_" + e["ev"]["ty"]), verbose=False)
    elif op == "delrec":
        view(net, e["ev"], rowsets).delete_recordings()
    elif op == "clamp":
        view(net, e["ev"], rowsets).clamp(e["ev"]["ty"] + "_s", jnp.asarray([float(50 * (nin + 1) + k) for k in range(1, T + 1)]), verbose=False)
        return nin + 1
    elif op == "stim":
        net.select(nodes=[e["row"]]).stimulate(jnp.asarray([float(10 * (nin + 1) + k) for k in range(1, T + 1)]), verbose=False)
        return nin + 1
    elif op == "trainw":
        tv = view(net, e["ev"], rowsets)
        (tv.edge("all") if e["each"] and e["ev"]["kind"] == "type" else tv).make_trainable(e["ev"]["ty"] + "_w", init_val=float(e["x"]), verbose=False)
    elif op == "deltrain":
        view(net, e["ev"], rowsets).delete_trainables()
    return nin


def project(net, nin):
    ed = net.edges
    p = {"edges": [], "w": [], "s0": [], "recs": [], "stim": [], "ecl": [], "tr": [], "nin": nin}
    if len(ed):
        p["edges"] = [{"pre": int(a), "post": int(b), "ty": str(t)} for a, b, t in
                      zip(ed["pre_global_comp_index"], ed["post_global_comp_index"], ed["type"])]
        p["w"] = [tok(ed[t + "_w"].iloc[i]) for i, t in enumerate(ed["type"])]
        p["s0"] = [tok(ed[t + "_s"].iloc[i]) for i, t in enumerate(ed["type"])]
    if len(net.recordings):
        for ri, stt in zip(net.recordings["rec_index"], net.recordings["state"]):
            p["recs"].append(["s" if str(stt).endswith("_s") else "i", int(ri) + 1])
    ext = net.externals
    if "i" in ext:
        p["stim"] = [[int(r), int(round((float(np.asarray(cur)[0]) - 1) / 10))] for r, cur in zip(np.asarray(net.external_inds["i"]), np.asarray(ext["i"]))]
    cl = []
    for key in ("P_s", "Q_s"):
        if key in ext:
            for pos, (r, cur) in enumerate(zip(np.asarray(net.external_inds[key]), np.asarray(ext[key]))):
                cl.append((int(round((float(np.asarray(cur)[0]) - 1) / 50)), pos, int(r) + 1))
    p["ecl"] = [[e_, j] for j, _, e_ in sorted(cl)]
    for inds, par in zip(net.indices_set_by_trainables, net.trainable_params):
        p["tr"].append({"groups": sorted(sorted(int(x) + 1 for x in row if int(x) >= 0) for row in np.asarray(inds)),
                        "val": tok(np.asarray(list(par.values())[0])[0])})
    return p


def main():
    job = json.load(open(sys.argv[1]))
    rowsets = job["model"]["rowsets"]
    traces = []
    import pickle
    base = pickle.dumps(probes.build_net(LAYOUTS[job["layout"]], job["model"]["K"], CM))
    with jax.disable_jit():
        for sd in job["seeds"]:
            rng = random.Random(sd)
            net = pickle.loads(base)
            nin = 0
            tr = []
            for _ in range(job["length"]):
                e = random_event(rng, len(net.edges))
                try:
                    nin = apply(net, e, nin, rowsets)
                    e["ok"] = 1
                except Exception as ex:
                    e["ok"] = 0
                    e["err"] = type(ex).__name__ + ": " + str(ex)[:80]
                e["after"] = project(net, nin)
                tr.append(e)
            # last event of every history: copy a node property over to the synapses (pre and post side)
            if len(net.edges):
                e = {"op": "copyprop", "key": "v"}
                try:
                    net.copy_node_property_to_edges("v")
                    e["ok"] = 1
                    e["prev"] = [tok(x) for x in net.edges["pre_v"]]
                    e["postv"] = [tok(x) for x in net.edges["post_v"]]
                except Exception as ex:
                    e["ok"] = 0
                    e["err"] = type(ex).__name__ + ": " + str(ex)[:80]
                    e["prev"], e["postv"] = [], []
                e["after"] = project(net, nin)
                tr.append(e)
            traces.append(tr)
    json.dump({"traces": traces}, open(sys.argv[2], "w"))


if __name__ == "__main__":
    main()

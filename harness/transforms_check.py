"""C17: parameter transforms are bounded, monotone bijections (Mode C + structural Transforms.tla).

usage: python -m harness.transforms_check
"""
import json
import math
import os
import sys

from harness import common as C
from harness.kinetics_check import run_exprabs, cell_points, cell_name, fr


def catalogue():
    """name -> (constructor thunk, declared lower, declared upper, direction +1/-1)"""
    from jaxley.optimize import transforms as T
    cat = {}
    for lo, hi in [(-1.0, 1.0), (0.0, 1e-3), (-80.0, -50.0)]:
        cat["sigmoid[%g,%g]" % (lo, hi)] = (lambda lo=lo, hi=hi: T.SigmoidTransform(lo, hi), lo, hi, 1)
    for lo in [0.0, 2.0, -80.0]:
        cat["softplus[%g]" % lo] = (lambda lo=lo: T.SoftplusTransform(lo), lo, math.inf, 1)
    for hi in [0.0, -50.0]:
        cat["negsoftplus[%g]" % hi] = (lambda hi=hi: T.NegSoftplusTransform(hi), -math.inf, hi, 1)
    for a, b in [(2.0, 1.0), (-0.5, 3.0)]:
        cat["affine[%g,%g]" % (a, b)] = (lambda a=a, b=b: T.AffineTransform(a, b), -math.inf, math.inf, 1 if a > 0 else -1)
    cat["chain[affine(0.5,1),sigmoid(-80,-50)]"] = (
        lambda: T.ChainTransform([T.AffineTransform(0.5, 1.0), T.SigmoidTransform(-80.0, -50.0)]), -80.0, -50.0, 1)
    cat["chain[softplus(0),affine(-2,3)]"] = (
        lambda: T.ChainTransform([T.SoftplusTransform(0.0), T.AffineTransform(-2.0, 3.0)]), -math.inf, 3.0, -1)
    cat["chain[affine(2,0),affine(1,-1),softplus(2)]"] = (
        lambda: T.ChainTransform([T.AffineTransform(2.0, 0.0), T.AffineTransform(1.0, -1.0), T.SoftplusTransform(2.0)]), 2.0, math.inf, 1)
    return cat


def ulp(x):
    import numpy as np
    return float(np.spacing(abs(x))) if math.isfinite(x) else math.inf


def main():
    import numpy as np
    import mpmath as mp
    from harness.jaxsetup import jax, jnp
    from harness import ssa
    from jaxley.optimize import transforms as T
    mp.mp.dps = 40
    chk = C.Check("C17", "exploration")
    quick = C.tier() == "quick"
    rng = np.random.default_rng(C.seed())
    cat = catalogue()
    progs = {}
    for name, (mk, lo, hi, d) in cat.items():
        t = mk()
        progs["fwd:" + name] = ssa.to_ssa(t.forward, example=0.3, lo=-10 ** 6, hi=10 ** 6)
        ilo = lo if math.isfinite(lo) else (hi - 1e6 if math.isfinite(hi) else -1e6)
        ihi = hi if math.isfinite(hi) else (lo + 1e6 if math.isfinite(lo) else 1e6)
        p = ssa.to_ssa(t.inverse, example=0.5 * (max(ilo, -100) + min(ihi, 100)) if name.startswith("affine") else
                       (ilo + 0.25 * min(ihi - ilo, 1.0)), lo=0, hi=1)
        p["lo"], p["hi"] = ssa.rat(ilo), ssa.rat(ihi)
        progs["inv:" + name] = p
    cells, res = run_exprabs(progs, "c17")
    by_prog = {}
    for c in cells:
        by_prog.setdefault(c["prog"], []).append(c)
    n_int = 10 if quick else 300
    evals = 0
    const_cells = []
    for name, (mk, lo, hi, direction) in cat.items():
        t = mk()
        fwd_cells = sorted(by_prog["fwd:" + name], key=lambda c: float(fr(c["lo"])))
        pts = []
        for c in fwd_cells:
            if all(c["const"]):
                const_cells.append({"prog": "fwd:" + name, "cell": cell_name(c)})
            cp = cell_points(c, n_int, rng)
            if not c["pt"]:
                a, b = float(fr(c["lo"])), float(fr(c["hi"]))
                # huge cells: also sample on a logarithmic scale next to their finite end
                for e in (1e-3, 1e-1, 1.0, 10.0, 100.0, 1e4):
                    cp += [x for x in (a + e, b - e) if a < x < b]
            pts += cp
        x = np.asarray(sorted(set(pts)))
        y = np.asarray(t.forward(jnp.asarray(x)), dtype=float)
        evals += len(x)
        sig = {"transform": name}
        # R1: inside the declared bounds
        bad = ~(np.isfinite(y)) | (y < lo) | (y > hi)
        if bad.any():
            i = int(np.where(bad)[0][0])
            chk.violation({**sig, "what": "forward leaves the declared bounds or is not finite"}, {"x": float(x[i]), "y": float(y[i]), "bounds": [lo, hi]})
        # R2: monotone
        dy = np.diff(y) * direction
        if (dy < 0).any():
            i = int(np.where(dy < 0)[0][0])
            chk.violation({**sig, "what": "forward is not monotone"}, {"x": [float(x[i]), float(x[i + 1])], "y": [float(y[i]), float(y[i + 1])]})
        # R3: inverse(forward(x)) = x to round-off wherever the exact inverse of the computed y is representable
        xb = np.asarray(t.inverse(jnp.asarray(y)), dtype=float)
        hh = 1e-5 * (1.0 + np.abs(x))
        slope = np.abs(np.asarray(t.forward(jnp.asarray(x + hh)), dtype=float) - np.asarray(t.forward(jnp.asarray(x - hh)), dtype=float)) / (2 * hh)
        # numerical derivative of the exact inverse at y from neighbouring sample points (backward-stable tolerance)
        for i in range(len(x)):
            if not math.isfinite(y[i]) or y[i] <= lo or y[i] >= hi:
                continue           # on the boundary the inverse is infinite: not representable
            if abs(xb[i] - x[i]) <= 8 * ulp(x[i]):
                continue
            dydx = float(slope[i]) if math.isfinite(slope[i]) else 0.0
            if dydx == 0.0:
                # forward is flat between the neighbouring doubles: y cannot resolve x (legitimate rounding at the
                # extremes).  Saturation by the clipped exponential is different: exact arithmetic WOULD resolve it.
                exact = exact_forward(name, float(x[i]), mp)
                if exact is None or abs(exact - mp.mpf(float(y[i]))) <= 4 * ulp(y[i]):
                    continue
                chk.violation({**sig, "what": "forward saturates although the exact value is representable (round trip impossible)",
                               "regime": "x<0" if x[i] < 0 else "x>0"},
                              {"x": float(x[i]), "forward": float(y[i]), "exact": float(exact)})
                break
            tol = 8 * (ulp(y[i]) / dydx + ulp(x[i])) + 1e-12 * abs(x[i])
            if not (abs(xb[i] - x[i]) <= tol):
                chk.violation({**sig, "what": "inverse(forward(x)) differs from x", "regime": "x<0" if x[i] < 0 else "x>0"},
                              {"x": float(x[i]), "y": float(y[i]), "back": float(xb[i]), "tol": tol})
                break
        # R3': forward(inverse(y)) = y on the declared range
        inv_cells = by_prog["inv:" + name]
        ys = []
        for c in inv_cells:
            if all(c["const"]) and not c["pt"]:
                const_cells.append({"prog": "inv:" + name, "cell": cell_name(c)})
            ys += cell_points(c, n_int, rng)
        ys = np.asarray(sorted(set(v for v in ys if lo < v < hi)))
        xi = np.asarray(t.inverse(jnp.asarray(ys)), dtype=float)
        yb = np.asarray(t.forward(jnp.asarray(xi)), dtype=float)
        evals += len(ys)
        hy = 1e-6 * np.minimum(np.abs(ys - lo) if math.isfinite(lo) else np.inf, np.abs(hi - ys) if math.isfinite(hi) else np.inf)
        hy = np.where(np.isfinite(hy), hy, 1e-5 * (1.0 + np.abs(ys)))
        islope = np.abs(np.asarray(t.inverse(jnp.asarray(ys + hy)), dtype=float) - np.asarray(t.inverse(jnp.asarray(ys - hy)), dtype=float)) / (2 * hy)
        for i in range(len(ys)):
            if not math.isfinite(xi[i]):
                continue
            if abs(yb[i] - ys[i]) <= 8 * ulp(ys[i]):
                continue            # the round trip holds to round-off: nothing more to ask
            dxdy = float(islope[i]) if math.isfinite(islope[i]) else None
            if dxdy is None or dxdy == 0.0:
                # inverse flat between neighbouring doubles of the range
                exact_x = exact_inverse(name, float(ys[i]), mp)
                if exact_x is not None and abs(exact_x - mp.mpf(float(xi[i]))) > 1e-9 * (1 + abs(exact_x)):
                    chk.violation({**sig, "what": "inverse saturates on the declared range (forward(inverse(y)) cannot be y)"},
                                  {"y": float(ys[i]), "inverse": float(xi[i]), "exact": float(exact_x)})
                    break
                continue
            tol = 8 * (ulp(xi[i]) / dxdy + ulp(ys[i])) + 1e-12 * abs(ys[i])
            if not (abs(yb[i] - ys[i]) <= tol):
                chk.violation({**sig, "what": "forward(inverse(y)) differs from y"},
                              {"y": float(ys[i]), "x": float(xi[i]), "back": float(yb[i]), "tol": tol})
                break
        # identical under jit
        yj = np.asarray(jax.jit(t.forward)(jnp.asarray(x)), dtype=float)
        if not np.allclose(yj, y, rtol=1e-14, atol=0, equal_nan=True):
            chk.violation({**sig, "what": "forward differs under jit"}, {})
    # ------- structure: Transforms.tla -------
    res2 = C.run_tlc("Transforms", os.path.join(C.SPEC, "Transforms.cfg"), "transforms", workers=2, timeout=300)
    if res2.violated:
        chk.violation({"tlc_invariant": res2.violated}, res2.out[-2000:])
    elif not res2.ok:
        raise C.MachineryError("Transforms.tla failed:\n" + res2.out[-1500:])
    line = res2.printed("PERMS")[0]
    perms = json.loads(line[line.index('"[') + 1: line.rindex(']"') + 1])
    tabs = [jnp.asarray(p) for p in perms]
    invtabs = [jnp.asarray([p.index(i) for i in range(len(p))]) for p in perms]

    def custom(k):
        return T.CustomTransform(lambda x, k=k: tabs[k - 1][x], lambda y, k=k: invtabs[k - 1][y])
    line = res2.printed("PARTIAL")[0]
    pf = json.loads(line[line.index('"[') + 1: line.rindex(']"') + 1])
    UNDEF = 99
    pf_tab = jnp.asarray([float(v) for v in pf] + [float("nan")] * (6 - len(pf)))
    pinv_tab = jnp.asarray([float(pf.index(y)) if y in pf else float("nan") for y in range(6)])
    partial = T.CustomTransform(lambda x: pf_tab[jnp.asarray(x, dtype=int)], lambda y: pinv_tab[jnp.asarray(y, dtype=int)])
    tokf = lambda a: [UNDEF if math.isnan(float(q)) else int(q) for q in a]
    nstruct = 0
    for line in res2.printed("TF"):
        o = json.loads(line[line.index('"{') + 1: line.rindex('}"') + 1].replace('\\"', '"'))
        nstruct += 1
        if o["kind"] == "chain":
            ch = T.ChainTransform([custom(k) for k in o["obj"]])
            xs = jnp.arange(4)
            got = [[int(a), int(b)] for a, b in zip(ch.forward(xs), ch.inverse(xs))]
            val = o["val"] if isinstance(o["val"], list) else [o["val"][str(i)] for i in range(4)]
            want = [list(v) for v in val]
            gotj = [[int(a), int(b)] for a, b in zip(jax.jit(ch.forward)(xs), jax.jit(ch.inverse)(xs))]
        elif o["kind"] == "pmask":
            m, v = o["obj"]
            mt = T.MaskedTransform(jnp.asarray(m), partial)
            vv = jnp.asarray([float(q) for q in v])
            got = [tokf(mt.forward(vv)), tokf(mt.inverse(vv))]
            want = [list(o["val"][0]), list(o["val"][1])]
            gotj = [tokf(jax.jit(mt.forward)(vv)), tokf(jax.jit(mt.inverse)(vv))]
        elif o["kind"] == "mask":
            m, k, v = o["obj"]
            mt = T.MaskedTransform(jnp.asarray(m), custom(k))
            got = [[int(a) for a in mt.forward(jnp.asarray(v))], [int(a) for a in mt.inverse(jnp.asarray(v))]]
            want = [list(o["val"][0]), list(o["val"][1])]
            gotj = [[int(a) for a in jax.jit(mt.forward)(jnp.asarray(v))], [int(a) for a in jax.jit(mt.inverse)(jnp.asarray(v))]]
        else:
            ts, v = o["obj"]
            tree_tf = [{"a": custom(ts[0])}, {"b": custom(ts[1]), "c": custom(ts[2])}]
            params = [{"a": jnp.asarray([v[0]])}, {"b": jnp.asarray([v[1]]), "c": jnp.asarray([v[2]])}]
            pt = T.ParamTransform(tree_tf)
            f, i_ = pt.forward(params), pt.inverse(params)
            flat = lambda r: [int(r[0]["a"][0]), int(r[1]["b"][0]), int(r[1]["c"][0])]
            got = [flat(f), flat(i_)]
            want = [list(o["val"][0]), list(o["val"][1])]
            gotj = [flat(jax.jit(pt.forward)(params)), flat(jax.jit(pt.inverse)(params))]
            # the same pytree with a REPEATED parameter name (jaxley's parameter lists repeat names: one entry per make_trainable
            # call): every entry still goes through the transform at its own position
            tree_tf2 = [{"a": custom(ts[0])}, {"a": custom(ts[1])}, {"b": custom(ts[2])}]
            params2 = [{"a": jnp.asarray([v[0]])}, {"a": jnp.asarray([v[1]])}, {"b": jnp.asarray([v[2]])}]
            pt2 = T.ParamTransform(tree_tf2)
            flat2 = lambda r: [int(r[0]["a"][0]), int(r[1]["a"][0]), int(r[2]["b"][0])]
            got2 = [flat2(pt2.forward(params2)), flat2(pt2.inverse(params2))]
            nstruct += 1
            if got2 != want:
                chk.violation({"structure": "tree_repeated_names", "what": "composition / masking / pytree routing differs from Transforms.tla"},
                              {"obj": o["obj"], "got": got2, "want": want})
        if got != want or gotj != want:
            chk.violation({"structure": o["kind"], "what": "composition / masking / pytree routing differs from Transforms.tla"},
                          {"obj": o["obj"], "got": got, "got_jit": gotj, "want": want})
    # the same statement on the real transforms: an excluded entry passes through forward and inverse unchanged even where the
    # inner inverse does not exist (outside the declared range), an included one is transformed as by the inner transform alone
    for name, inner, inside in (("sigmoid", T.SigmoidTransform(0.0, 1.0), 0.25), ("softplus", T.SoftplusTransform(0.0), 0.5),
                                ("negsoftplus", T.NegSoftplusTransform(0.0), -0.5), ("affine", T.AffineTransform(2.0, 1.0), 0.3)):
        for mask in ([False, True, False], [True, False, False], [False, False, True]):
            vals = [-70.0, 3.0e3, -1e-3]
            vals[mask.index(True)] = inside
            vv = jnp.asarray(vals)
            mt = T.MaskedTransform(jnp.asarray(mask), inner)
            for fn, ref, tag in ((mt.forward, inner.forward, "forward"), (mt.inverse, inner.inverse, "inverse"),
                                 (jax.jit(mt.forward), inner.forward, "forward_jit"), (jax.jit(mt.inverse), inner.inverse, "inverse_jit")):
                out = np.asarray(fn(vv), dtype=float)
                want = np.where(np.asarray(mask), np.asarray(ref(vv), dtype=float), np.asarray(vals))
                nstruct += 1
                if not np.array_equal(out, want, equal_nan=True):
                    chk.violation({"structure": "mask", "transform": name, "what": "masked %s does not pass excluded entries through" % tag.split("_")[0]},
                                  {"mask": mask, "input": vals, "got": out.tolist(), "want": want.tolist(), "mode": tag})
    if nstruct < 100:
        raise C.MachineryError("Transforms.tla emitted only %d objects" % nstruct)
    chk.set("evaluations", evals + nstruct)
    chk.set("distinct_nontrivial", len(cells))
    chk.set("cells", len(cells))
    chk.set("transforms", len(cat))
    chk.set("structural_objects", nstruct)
    chk.set("abstractly_constant_cells", const_cells[:40])
    chk.set("rule", "TLC (ExprAbs.tla) derives the cells of forward on [-1e6,1e6] and of inverse on the declared range for %d transforms "
                    "(sigmoid/softplus/negsoftplus with 3 bound sets, affine, 3 chains); per cell: point, +-ulps, ends, log-spaced and %d "
                    "seeded interior doubles; bounds, monotonicity, round trips with a backward-stable tolerance; Transforms.tla enumerates "
                    "all chains <= 3, masks and pytrees over finite bijections (compared exactly, eager and jit)" % (len(cat), n_int))
    for c in const_cells[:3]:
        chk.sample(c)
    chk.sample({"cells": [cell_name(c) for c in cells[:6]]})
    chk.assume("cell-wise analysis exact over the reals, float remainder sampled", "round-trip tolerance 8*(ulp(y)*|inverse'(y)| + ulp(x))",
               "where forward is flat between neighbouring doubles only because of rounding, no round trip is demanded")
    return chk.finish()


def exact_forward(name, x, mp):
    """Exact forward value of the plain kinds (used only to tell rounding from saturation)."""
    import re
    m = re.match(r"sigmoid\[(.*),(.*)\]", name)
    if m:
        lo, hi = float(m.group(1)), float(m.group(2))
        return mp.mpf(lo) + (mp.mpf(hi) - mp.mpf(lo)) / (1 + mp.exp(-mp.mpf(x)))
    m = re.match(r"softplus\[(.*)\]", name)
    if m:
        return mp.log1p(mp.exp(mp.mpf(x))) + mp.mpf(float(m.group(1)))
    m = re.match(r"negsoftplus\[(.*)\]", name)
    if m:
        return -(mp.log1p(mp.exp(-mp.mpf(x))) - mp.mpf(float(m.group(1)))) if False else -(mp.log1p(mp.exp(-mp.mpf(x)))) + mp.mpf(float(m.group(1)))
    return None


def exact_inverse(name, y, mp):
    import re
    m = re.match(r"softplus\[(.*)\]", name)
    if m:
        z = mp.mpf(y) - mp.mpf(float(m.group(1)))
        return mp.log(mp.expm1(z))
    m = re.match(r"negsoftplus\[(.*)\]", name)
    if m:
        z = mp.mpf(float(m.group(1))) - mp.mpf(y)
        return -mp.log(mp.expm1(z))
    m = re.match(r"sigmoid\[(.*),(.*)\]", name)
    if m:
        lo, hi = float(m.group(1)), float(m.group(2))
        u = (mp.mpf(y) - lo) / (mp.mpf(hi) - lo)
        return -mp.log(1 / u - 1)
    return None


if __name__ == "__main__":
    C.main_wrapper(main)

"""Worker: replay the TLC state graph of MC_Module (JaxleyModule.tla + ProbeSim.tla) on the real jaxley.

job: {"model": {...}, "states": [{"path": [labels], "state": {...}, "out": [[label, dststate], ...],
                                   "refused": [labels]}]}
"""
import json
import sys

from harness.jaxsetup import jax, jnp, np, jx
from harness.common import parse_action_label
from harness import probes
from harness.probes import tok, DT, UNIT
from jaxley.utils.cell_utils import params_to_pstate

KEYS = ["radius", "v", "A_g", "A_s", "B_g", "sh"]
PARAM_KEYS = ["radius", "A_g", "B_g", "sh"]
STATE_KEYS = ["v", "A_s"]
CELL_SHAPE = [2, 1, 3]

VIEW = {
    "all": lambda c: c,
    "b0": lambda c: c.branch(0),
    "b01": lambda c: c.branch([0, 1]),
    "b12": lambda c: c.branch([1, 2]),
    "c0": lambda c: c.comp(0),
    "mid": lambda c: c.select(nodes=[1, 2, 3]),
    "last": lambda c: c.branch(2).comp(2),
}


# the same six rows as a NETWORK of three single-branch cells (2, 1 and 3 compartments): the specification speaks about rows,
# views and sharing groups only, so every history can be replayed on either container (model["container"])
NET_SHAPES = [[2], [1], [3]]
VIEW_NET = {
    "all": lambda n: n,
    "b0": lambda n: n.cell(0),
    "b01": lambda n: n.cell([0, 1]),
    "b12": lambda n: n.cell([1, 2]),
    "c0": lambda n: n.cell("all").branch(0).comp(0),
    "mid": lambda n: n.select(nodes=[1, 2, 3]),
    "last": lambda n: n.cell(2).branch(0).comp(2),
}


def stim_amp(j, k):
    return 10 * j + k


def clamp_val(key, j, k):
    return (1000 if key == "v" else 50) * j + k


class Ctx:
    def __init__(self, model, cell=None, nin=0):
        self.model = model
        self.T = model["T"]
        self.nin = nin
        self.container = model.get("container", "cell")
        if cell is not None:
            self.cell = cell
        elif self.container == "network":
            self.cell = probes.build_net(NET_SHAPES, model["K"])
            self.cell.set("v", 0.0)
        else:
            self.cell = probes.build_cell(CELL_SHAPE, model["K"])
        self.rows_of = {vn: sorted(v["rows"]) for vn, v in model["views"].items()}

    def freeze(self):
        import pickle
        return (pickle.dumps(self.cell), self.nin)

    @staticmethod
    def thaw(model, frozen):
        """A fresh copy of a replayed state.  Copies are only a speed-up: every frozen state is checked
        (below) to project to exactly the same tables as the module it was taken from."""
        import pickle
        return Ctx(model, pickle.loads(frozen[0]), frozen[1])

    def view(self, vn):
        v = (VIEW_NET if self.container == "network" else VIEW)[vn](self.cell)
        got = sorted(int(x) for x in v._nodes_in_view)
        if got != self.rows_of[vn]:
            raise AssertionError("view %s denotes %s, specification says %s" % (vn, got, self.rows_of[vn]))
        return v


def apply(ctx, label):
    name, a = parse_action_label(label)
    T = ctx.T
    if name == "AInsert":
        ctx.view(a[1]).insert(probes.CHAN[a[0]]())
    elif name == "ADeleteChannel":
        ctx.view(a[1]).delete_channel(probes.CHAN[a[0]]())
    elif name == "ASet":
        ctx.view(a[2]).set(a[0], float(a[1]))
    elif name == "AMakeTrainable":
        ctx.view(a[2]).make_trainable(a[0], float(a[1]), verbose=False)
    elif name == "ADeleteTrainables":
        ctx.view(a[0]).delete_trainables()
    elif name == "AWriteTrainables":
        ctx.cell.write_trainables(ctx.cell.get_parameters())
    elif name == "AAddToGroup":
        ctx.view(a[1]).add_to_group(a[0])
    elif name == "ARecord":
        ctx.view(a[1]).record(a[0], verbose=False)
    elif name == "ADeleteRecordings":
        ctx.view(a[0]).delete_recordings()
    elif name == "AStimulate":
        j = ctx.nin + 1
        ctx.view(a[0]).stimulate(jnp.asarray([float(stim_amp(j, k)) for k in range(1, T + 1)]), verbose=False)
        ctx.nin = j
    elif name == "AClamp":
        j = ctx.nin + 1
        ctx.view(a[1]).clamp(a[0], jnp.asarray([float(clamp_val(a[0], j, k)) for k in range(1, T + 1)]), verbose=False)
        ctx.nin = j
    elif name == "ADeleteStimuli":
        ctx.view(a[0]).delete_stimuli()
    elif name == "ADeleteClamps":
        ctx.view(a[1]).delete_clamps(a[0])
    else:
        raise ValueError(label)


def project(ctx, with_eff=True):
    cell = ctx.cell
    n = cell.nodes
    N = len(n)
    has = [[ch for ch in ("A", "B") if ch in n.columns and bool(n[ch].iloc[r])] for r in range(N)]
    col = {k: [tok(n[k].iloc[r]) if k in n.columns else -1 for r in range(N)] for k in KEYS}
    st = {
        "has": has, "col": col, "colset": sorted(k for k in KEYS if k in n.columns),
        "reg": [c._name for c in cell.channels], "curs": list(cell.membrane_current_names),
        "index_ok": [int(x) for x in n.index] == list(range(N)) and [int(x) for x in n["global_comp_index"]] == list(range(N)),
        "groups": {g: sorted(int(x) for x in v) for g, v in cell.groups.items() if len(v) > 0},
        "recs": [[int(r), str(s)] for r, s in zip(cell.recordings.get("rec_index", []), cell.recordings.get("state", []))]
        if len(cell.recordings) else [],
        "nin": ctx.nin,
    }
    ext = {}
    for key, arr in cell.externals.items():
        inds = np.asarray(cell.external_inds[key])
        vals = np.asarray(arr)
        items = []
        for i in range(len(inds)):
            first = float(vals[i][0])
            base = 10 if key == "i" else (1000 if key == "v" else 50)
            j = (first - 1) / base
            items.append([int(inds[i]), int(round(j)) if abs(j - round(j)) < 1e-9 else "bad:%r" % first])
        if len(items) != len(vals):
            items.append("length mismatch")
        ext[key] = items
    st["ext"] = ext
    trains = []
    for inds, p in zip(cell.indices_set_by_trainables, cell.trainable_params):
        key = list(p.keys())[0]
        vals = np.asarray(p[key]).reshape(-1)
        inds = np.asarray(inds)
        if inds.ndim != 2 or inds.shape[0] != len(vals):
            trains.append({"key": key, "broken": "indices of shape %s for %d values" % (inds.shape, len(vals))})
            continue
        groups = sorted(sorted(int(i) for i in row if int(i) >= 0) for row in inds)
        v = sorted(set(tok(x) for x in vals), key=str)
        trains.append({"key": key, "groups": groups, "val": v[0] if len(v) == 1 else v})
    st["trains"] = trains
    if with_eff:
        try:
            cell.to_jax()
            ps = params_to_pstate(cell.get_parameters(), cell.indices_set_by_trainables)
            allp = cell.get_all_parameters(ps, "jaxley.thomas")
            alls = cell.get_all_states(ps, allp, DT)
            eff = {}
            for k in KEYS:
                src = allp if k in PARAM_KEYS else alls
                eff[k] = [tok(x) for x in np.asarray(src[k])] if k in src else [-1] * N
            st["eff"] = eff
        except Exception as e:
            st["eff"] = "raised " + type(e).__name__ + ": " + str(e)[:100]
    return st


def eff_of(cell, param_state=None):
    cell.to_jax()
    ps = params_to_pstate(cell.get_parameters(), cell.indices_set_by_trainables)
    if param_state is not None:
        ps = ps + param_state
    allp = cell.get_all_parameters(ps, "jaxley.thomas")
    alls = cell.get_all_states(ps, allp, DT)
    N = len(cell.nodes)
    eff = {}
    for k in KEYS:
        src = allp if k in PARAM_KEYS else alls
        eff[k] = [tok(x) for x in np.asarray(src[k])] if k in src else [-1] * N
    return eff


def VS_ROUTE(model):
    # jaxley.stone / jaxley.thomas refuse networks whose cells differ in their compartment counts (documented): jax.sparse there
    return "jax.sparse" if model.get("container") == "network" else "jaxley.thomas"


def routes(model, frozen, lab, dst, src):
    """C10: set(), data_set() and make_trainable()+params are equivalent ways of setting a value."""
    name, a = parse_action_label(lab)
    k, x, vn = a
    if any(t["key"] == k for t in src["trains"]):
        return []          # an existing trainable of the same key takes precedence over set(): not comparable
    bad = []
    obs_possible = bool(src["recs"]) and all(r in (1, 2) for r in dst["eff"]["radius"]) \
        and not any(r[1] in ("A_s", "i_A") and "A" not in src["reg"] for r in src["recs"])
    kw = {} if src["ext"] else {"t_max": (model["T"] - 1) * DT}
    want_obs = None
    if obs_possible:
        c_set = Ctx.thaw(model, frozen)
        apply(c_set, lab)
        want_obs = np.asarray(jx.integrate(c_set.cell, params=c_set.cell.get_parameters(), delta_t=DT, voltage_solver=VS_ROUTE(model), **kw))
    # data_set: functional, must not touch the tables
    c3 = Ctx.thaw(model, frozen)
    before = project(c3, with_eff=False)
    ps = c3.view(vn).data_set(k, float(x), None)
    if project(c3, with_eff=False) != before:
        bad.append({"route": "data_set", "what": "tables changed"})
    e3 = eff_of(c3.cell, ps)
    if e3 != dst["eff"]:
        bad.append({"route": "data_set", "what": "parameters differ from set()", "got": e3, "want": dst["eff"]})
    if want_obs is not None:
        o3 = np.asarray(jx.integrate(c3.cell, params=c3.cell.get_parameters(), param_state=ps, delta_t=DT, voltage_solver=VS_ROUTE(model), **kw))
        if not np.allclose(o3, want_obs, rtol=0, atol=1e-9, equal_nan=True):
            bad.append({"route": "data_set", "what": "simulation differs from set()"})
    # make_trainable + params (refused when the view holds no settable row: set() is a no-op there)
    if all(src["col"][k][r] == -1 for r in model["views"][vn]["rows"]):
        return bad
    c4 = Ctx.thaw(model, frozen)
    c4.view(vn).make_trainable(k, float(x), verbose=False)
    e4 = eff_of(c4.cell)
    if e4 != dst["eff"]:
        bad.append({"route": "make_trainable", "what": "parameters differ from set()", "got": e4, "want": dst["eff"]})
    if want_obs is not None:
        o4 = np.asarray(jx.integrate(c4.cell, params=c4.cell.get_parameters(), delta_t=DT, voltage_solver=VS_ROUTE(model), **kw))
        if not np.allclose(o4, want_obs, rtol=0, atol=1e-9, equal_nan=True):
            bad.append({"route": "make_trainable", "what": "simulation differs from set()"})
    return bad


def compare(got, want):
    """names of the abstract variables that differ"""
    bad = []
    for k in want:
        if k in ("obs", "depth"):
            continue
        if got.get(k) != want[k]:
            bad.append(k)
    if not got.get("index_ok", True):
        bad.append("index_ok")
    return bad


def integrate(ctx, want_obs):
    cell = ctx.cell
    kw = {}
    if not cell.externals:
        kw["t_max"] = (ctx.T - 1) * DT
    before = project(ctx)
    res = {}
    outs = []
    import zlib
    pick = zlib.crc32(json.dumps(want_obs).encode() + str(len(cell.nodes.columns)).encode()) % 3
    backends = [("jaxley.thomas", "jax.sparse", "jaxley.stone")[pick]] if ctx.model.get("quick") else ["jaxley.thomas", "jax.sparse"]
    if ctx.container == "network":
        backends = ["jax.sparse"]       # the jaxley.* solvers refuse cells of different compartment counts (documented refusal)
    for vs in backends:
        out = np.asarray(jx.integrate(cell, params=cell.get_parameters(), delta_t=DT, voltage_solver=vs, **kw))
        outs.append(out)
        states = [s for s in cell.recordings["state"]]
        got = []
        for row, s in zip(out, states):
            if s == "i_A":
                row = row / (-UNIT)
            got.append([tok(x) for x in row])
        if got != want_obs:
            res.setdefault("obs_mismatch", []).append({"voltage_solver": vs, "got": got})
    again = np.asarray(jx.integrate(cell, params=cell.get_parameters(), delta_t=DT, voltage_solver=backends[-1], **kw))
    if not np.array_equal(again, outs[-1], equal_nan=True):
        res["repeat_differs"] = True
    after = project(ctx)
    if after != before:
        res["not_pure"] = [k for k in before if before[k] != after.get(k)]
    return res


def rebuild(model, path, cast_after=None):
    """Replay a history.  cast_after = i: the module is cast to jax (as integrate / get_parameters users do)
    after the i-th call and not again, so that a consumer relying on a stale cast is exposed."""
    ctx = Ctx(model)
    if cast_after == 0:
        ctx.cell.to_jax()
    for i, lab in enumerate(path):
        apply(ctx, lab)
        if cast_after == i + 1:
            ctx.cell.to_jax()
    return ctx


def main():
    job = json.load(open(sys.argv[1]))
    model = job["model"]
    out = {"transitions": 0, "refusals": 0, "integrations": 0, "mismatch": []}
    with jax.disable_jit():
        for st in job["states"]:
            # the source state itself (sanity of the path replay)
            try:
                ctx = rebuild(model, st["path"])
                p0 = project(ctx)
                bad = compare(p0, st["state"])
                frozen = ctx.freeze()
                if project(Ctx.thaw(model, frozen)) != p0:
                    raise AssertionError("pickled copy of the replayed module projects differently")
            except Exception as e:
                out["mismatch"].append({"kind": "path_failed", "path": st["path"], "err": type(e).__name__ + ": " + str(e)[:200]})
                continue
            if bad:
                # reported once where the transition into this state is replayed
                continue
            for lab, dst in st["out"]:
                out["transitions"] += 1
                try:
                    if lab == "Integrate":
                        out["integrations"] += 1
                        r = integrate(ctx, dst["obs"])
                        for k, v in r.items():
                            out["mismatch"].append({"kind": "integrate_" + k, "path": st["path"], "label": lab, "detail": v,
                                                    "src_reg": st["state"]["reg"], "src_recs": st["state"]["recs"],
                                                    "want": dst["obs"]})
                        continue
                    if model.get("routes") and lab.startswith("ASet("):
                        out["routes"] = out.get("routes", 0) + 1
                        for b in routes(model, frozen, lab, dst, st["state"]):
                            out["mismatch"].append({"kind": "route", "path": st["path"], "label": lab, "detail": b,
                                                    "route": b["route"]})
                    if lab == "AWriteTrainables":
                        # the same call on modules that were cast to jax at an EARLIER point of the history only
                        for i in range(len(st["path"])):
                            c5 = rebuild(model, st["path"], cast_after=i)
                            apply(c5, lab)
                            bad5 = compare(project(c5), dst)
                            out["transitions"] += 1
                            if bad5:
                                out["mismatch"].append({"kind": "transition", "path": st["path"], "label": lab, "differs": bad5,
                                                        "variant": "module cast to jax after call %d of the history" % i,
                                                        "src_trains": st["state"]["trains"], "src_reg": st["state"]["reg"],
                                                        "src_recs": st["state"]["recs"], "got": {}, "want": {}})
                                break
                    c2 = Ctx.thaw(model, frozen)
                    apply(c2, lab)
                    got = project(c2)
                    bad = compare(got, dst)
                    if bad:
                        out["mismatch"].append({"kind": "transition", "path": st["path"], "label": lab, "differs": bad,
                                                "src_trains": st["state"]["trains"], "src_reg": st["state"]["reg"], "src_recs": st["state"]["recs"],
                                                "got": {k: got.get(k) for k in bad}, "want": {k: dst.get(k) for k in bad}})
                except Exception as e:
                    out["mismatch"].append({"kind": "raised", "path": st["path"], "label": lab, "src_trains": st["state"]["trains"], "src_reg": st["state"]["reg"], "src_recs": st["state"]["recs"],
                                            "err": type(e).__name__ + ": " + str(e)[:200]})
            for lab in st["refused"]:
                out["refusals"] += 1
                c2 = Ctx.thaw(model, frozen)
                before = project(c2, with_eff=False)
                try:
                    apply(c2, lab)
                    out["mismatch"].append({"kind": "not_refused", "path": st["path"], "label": lab})
                except Exception:
                    c2.nin = before["nin"]
                    after = project(c2, with_eff=False)
                    if after != before:
                        out["mismatch"].append({"kind": "refused_but_changed", "path": st["path"], "label": lab,
                                                "differs": [k for k in before if before[k] != after.get(k)]})
    for mm in out["mismatch"]:
        mm["container"] = model.get("container", "cell")
    json.dump(out, open(sys.argv[2], "w"), default=str)


if __name__ == "__main__":
    main()

"""C09 / C08 (synaptic part): NetSim.tla model-checked by TLC; sampled observed states replayed on a real network.

usage: python -m harness.net_check C09|C08          (driver)
       python -m harness.net_check <job> <out>       (worker)
"""
import json
import os
import pickle
import sys
from collections import Counter

from harness import common as C

# equal cell layouts (accepted by jaxley.stone / jaxley.thomas as well); the specification speaks about rows only, so the same
# histories are replayed on three single-branch cells and on two branched cells (1 + 2 compartments each)
LAYOUTS = {"three_cables": [[2], [2], [2]], "two_branched_cells": [[1, 2], [1, 2]]}


def worker():
    from harness.jaxsetup import jax, jnp, np, jx
    from harness import probes
    from harness.probes import DT, tok
    from jaxley.connect import connect
    job = json.load(open(sys.argv[1]))
    T, K = job["model"]["T"], job["model"]["K"]
    # specific capacitances differ from 1 and from each other: a synaptic (point) current must act like the same nA injected
    CM = [1.0, 2.0, 0.5, 1.0, 4.0, 0.25]
    base = pickle.dumps(probes.build_net(LAYOUTS[job["layout"]], K, CM[:len(K)]))
    res = {"states": 0, "routes": {"set": 0, "data_set": 0, "make_trainable": 0}, "mismatch": []}

    def view(net, ev):
        if ev["kind"] == "rows":
            return net.select(nodes=[int(r) for r in job["model"]["rowsets"][int(ev["k"]) - 1]])
        v = getattr(net, ev["ty"])
        return v if ev["kind"] == "type" else v.edge(int(ev["k"]))

    for si, st in enumerate(job["states"]):
        net = pickle.loads(base)
        # voltage recordings of every compartment exist WHILE the history runs (they are not part of NetSim's state): a
        # delete_recordings through a node selection then meets recordings of compartments whose index equals a synapse's
        net.record("v", verbose=False)
        nin = 0
        # C10 on synaptic parameters: the weight edits of a history go through .set, or are all deferred to integrate through
        # data_set / make_trainable (the tables then keep the initial weight 1)
        route = ["set", "data_set", "make_trainable"][(si + job.get("salt", 0)) % 3]
        has_setw = any(h["op"] == "setw" for h in st["hist"])
        has_train = any(h["op"] == "trainw" for h in st["hist"])
        if has_train:
            route = "set"           # data_set is applied after the trainables and would override them: not the specification's order
        pstate, tvals = None, []
        sig = {"ntypes": len({e["ty"] for e in st["edges"]}), "ops": ",".join(sorted({h["op"] for h in st["hist"]})), "layout": job["layout"]}
        rank_in_type = {}
        cnt = Counter()
        for i, e in enumerate(st["edges"]):
            rank_in_type[i + 1] = cnt[e["ty"]]
            cnt[e["ty"]] += 1
        try:
            with jax.disable_jit():
                for h in st["hist"]:
                    if h["op"] == "connect":
                        connect(net.select(nodes=[h["pre"]]), net.select(nodes=[h["post"]]), probes.SYN[h["ty"]]())
                    elif h["op"] == "setw":
                        key = h["ev"]["ty"] + "_w"
                        if route == "set":
                            view(net, h["ev"]).set(key, float(h["x"]))
                        elif route == "data_set":
                            pstate = view(net, h["ev"]).data_set(key, jnp.asarray(float(h["x"])), pstate)
                        else:
                            view(net, h["ev"]).make_trainable(key, init_val=float(h["x"]), verbose=False)
                            tvals.append((key, float(h["x"])))
                    elif h["op"] == "trainw":
                        key = h["ev"]["ty"] + "_w"
                        tv = view(net, h["ev"])
                        (tv.edge("all") if h["each"] and h["ev"]["kind"] == "type" else tv).make_trainable(key, init_val=float(h["x"]), verbose=False)
                        tvals.append((key, float(h["x"])))
                    elif h["op"] == "deltrain":
                        view(net, h["ev"]).delete_trainables()
                    elif h["op"] == "sets":
                        view(net, h["ev"]).set(h["ev"]["ty"] + "_s", float(h["x"]))
                    elif h["op"] == "record":
                        view(net, h["ev"]).record((h["ev"]["ty"] + "_s") if h["what"] == "s" else ("i_" + h["ev"]["ty"]), verbose=False)
                    elif h["op"] == "delrec":
                        view(net, h["ev"]).delete_recordings()
                    elif h["op"] == "clamp":
                        nin += 1
                        view(net, h["ev"]).clamp(h["ev"]["ty"] + "_s", jnp.asarray([float(50 * nin + k) for k in range(1, T + 1)]), verbose=False)
                    elif h["op"] == "stim":
                        nin += 1
                        net.select(nodes=[h["row"]]).stimulate(jnp.asarray([float(10 * nin + k) for k in range(1, T + 1)]), verbose=False)
                # the edge table: wiring, weights and initial states reach exactly the selected synapses
                ed = net.edges
                got_edges = [{"pre": int(a), "post": int(b), "ty": str(t)} for a, b, t in
                             zip(ed["pre_global_comp_index"], ed["post_global_comp_index"], ed["type"])]
                got_w = [tok(ed[t + "_w"].iloc[i]) for i, t in enumerate(ed["type"])]
                got_s = [tok(ed[t + "_s"].iloc[i]) for i, t in enumerate(ed["type"])]
                want_w = list(st["w"]) if route == "set" else [1] * len(st["w"])
                if has_setw:
                    res["routes"][route] += 1
                if got_edges != st["edges"] or got_w != want_w or got_s != list(st["s0"]):
                    res["mismatch"].append({"kind": "edge_table", **sig, "hist": st["hist"], "got": [got_edges, got_w, got_s],
                                            "want": [st["edges"], want_w, st["s0"]], "route": route})
                    res["states"] += 1
                    continue
                # recordings: v of every compartment first (the harness moves them to the front)
                recs_user = net.recordings[net.recordings["state"] != "v"].copy()
                recs_user = recs_user if len(recs_user) else None
                net.delete_recordings()
                net.record("v", verbose=False)
                if recs_user is not None:
                    import pandas as pd
                    net.recordings = pd.concat([net.recordings, recs_user])
                    if job.get("dup_v"):
                        # C08: the voltage of compartment 0 once more AFTER the synaptic rows, so that recordings of different
                        # states interleave (v ..., <synaptic states / currents>, v): every row must come back at its table position
                        net.recordings = pd.concat([net.recordings, net.recordings.iloc[[0]]])
                kw = {} if net.externals else {"t_max": (T - 1) * DT}
                if pstate is not None:
                    kw["param_state"] = pstate
                if tvals:
                    kw["params"] = net.get_parameters()          # the values the trainables were created with (init_val)
                    # the trainables themselves: groups of synapses and their values, in the order they were made
                    got_tr = [{"groups": sorted(sorted(int(x) + 1 for x in row if int(x) >= 0) for row in np.asarray(inds)),
                               "val": tok(np.asarray(list(p.values())[0])[0])}
                              for inds, p in zip(net.indices_set_by_trainables, net.trainable_params)]
                    want_tr = [{"groups": sorted(sorted(g) for g in t_["groups"]), "val": t_["val"]} for t_ in st.get("tr", [])]
                    if route == "set" and got_tr != want_tr:
                        res["mismatch"].append({"kind": "edge_table", **sig, "hist": st["hist"], "got": got_tr, "want": want_tr,
                                                "route": route, "what": "trainables"})
                        res["states"] += 1
                        continue
                for vs in job["backends"]:
                    out = np.asarray(jx.integrate(net, delta_t=DT, voltage_solver=vs, **kw))
                    states_ = list(net.recordings["state"])
                    got = [[tok(-x if s.startswith("i_") else x) for x in row] for row, s in zip(out, states_)]
                    want = [list(r) for r in st["obs"]]
                    if job.get("dup_v") and recs_user is not None:
                        want = want + [want[0]]
                    nrows = len(net.nodes)
                    if got[:nrows] != want[:nrows]:
                        res["mismatch"].append({"kind": "voltages", **sig, "voltage_solver": vs, "hist": st["hist"], "route": route,
                                                "got": got[:nrows], "want": want[:nrows]})
                        break
                    if got[nrows:] != want[nrows:]:
                        recs = st["recs"]
                        aligned = all(rank_in_type[r[1]] == r[1] - 1 for r in recs) and all(rank_in_type[c[0]] == c[0] - 1 for c in st["ecl"])
                        nclamp_calls = sum(1 for h in st["hist"] if h["op"] == "clamp")
                        res["mismatch"].append({"kind": "recorded_synaptic_rows", **sig, "voltage_solver": vs,
                                                "global_edge_index_equals_rank_within_type": aligned,
                                                "clamps": nclamp_calls, "hist": st["hist"], "got": got[nrows:], "want": want[nrows:]})
                        break
        except Exception as e:
            nclamp_calls = sum(1 for h in st["hist"] if h["op"] == "clamp")
            res["mismatch"].append({"kind": "raised", **sig, "clamps": nclamp_calls, "hist": st["hist"],
                                    "err": type(e).__name__ + ": " + str(e)[:200]})
        res["states"] += 1
    json.dump(res, open(sys.argv[2], "w"), default=str)


def pre_voltage_dependence():
    """TanhRateSynapse between capacitor cells: the current is -gS tanh(v_pre - x_offset).  With the presynaptic cell saturated at
    +20 / -20 mV above / below the offset the charge delivered to the postsynaptic cell flips its sign exactly, whatever the
    postsynaptic voltage is; the presynaptic cell and a bystander keep their voltage."""
    from harness.jaxsetup import jax, jnp, np, jx
    from harness import probes
    from jaxley.connect import connect
    from jaxley.synapses import TanhRateSynapse
    out = []

    def run(pre, post, v, vs):
        net = probes.build_net([[1], [1], [1]], [1, 1, 1])
        connect(net.select(nodes=[pre]), net.select(nodes=[post]), TanhRateSynapse())
        net.set("TanhRateSynapse_gS", 2e-3)
        net.set("TanhRateSynapse_x_offset", 0.0)
        net.set("v", np.asarray(v, dtype=float))
        net.record("v", verbose=False)
        return np.asarray(jx.integrate(net, delta_t=probes.DT, t_max=2 * probes.DT, voltage_solver=vs))

    for vs in ("jaxley.thomas", "jax.sparse"):
        for pre, post, other in ((0, 1, 2), (2, 0, 1), (1, 2, 0)):
            for v_post in (5.0, -13.0):
                v = [0.0, 0.0, 0.0]
                v[post], v[other] = v_post, -7.0
                v[pre] = 20.0
                up = run(pre, post, v, vs)
                v[pre] = -20.0
                dn = run(pre, post, v, vs)
                d_up, d_dn = up[post, -1] - v_post, dn[post, -1] - v_post
                sig = {"voltage_solver": vs, "pre": pre, "post": post, "v_post": v_post, "delta_up": float(d_up), "delta_down": float(d_dn)}
                if not (abs(d_up) > 1e-6 and abs(d_up + d_dn) <= 1e-9 * abs(d_up)):
                    out.append({**sig, "what": "charge delivered does not follow the presynaptic voltage"})
                if abs(up[pre, -1] - 20.0) > 1e-9 or abs(up[other, -1] + 7.0) > 1e-9:
                    out.append({**sig, "what": "presynaptic or bystander compartment moved"})
    return out


def _report(chk, traces, reached, crashed, seeds):
    nev = 0
    for t, tr in enumerate(traces, start=1):
        nev += len(tr)
        if reached[t] != len(tr) + 1:
            e = tr[max(reached[t], 1) - 1]
            chk.violation({"kind": "trace_rejected" if t not in crashed else "trace_state_unreadable", "action": e["op"], "accepted_by_code": bool(e["ok"]),
                           "view_kind": (e.get("ev") or {}).get("kind")},
                          {"trace_seed": seeds[t - 1], "event_index": reached[t], "event": {k_: v_ for k_, v_ in e.items() if k_ != "after"},
                           "history": [{k_: v_ for k_, v_ in x.items() if k_ != "after"} for x in tr[:reached[t]]],
                           "logged_after": e["after"], "logged_before": tr[reached[t] - 2]["after"] if reached[t] >= 2 else None})
    return nev


def trace_validation(chk, model, quick, sd):
    """Code -> spec: random wiring / editing histories recorded from the real network, validated by TLC against Trace_Net.tla."""
    import re
    ntr, length = (64, 22) if quick else (1200, 30)
    seeds = [sd * 100000 + 50000 + i for i in range(ntr)]
    jobs = [{"model": model, "seeds": ch, "length": length, "layout": sorted(LAYOUTS)[(i + sd) % 2]}
            for i, ch in enumerate(C.chunks(seeds, C.NCPU))]
    outs = C.run_workers("trace_net", jobs, timeout=3000)
    traces = [t for o in outs for t in o["traces"]]
    cfg = os.path.join(C.SPEC, "Trace_Net.cfg")
    reached, crashed = C.validate_traces("Trace_Net", cfg, traces, "trace_net")
    # binding demonstration: one corrupted field of one trace must be rejected at exactly that event
    # (on a trace the specification accepts as it is; with none accepted there is nothing to demonstrate on)
    accepted = [t for t, tr in enumerate(traces, start=1) if reached[t] == len(tr) + 1 and any(e["ok"] == 1 and e["after"]["w"] for e in tr)]
    if not accepted:
        return len(traces), _report(chk, traces, reached, crashed, seeds)
    bad = json.loads(json.dumps([traces[accepted[0] - 1]]))
    k = next(i for i, e in enumerate(bad[0]) if e["ok"] == 1 and e["after"]["w"])
    bad[0][k]["after"]["w"][0] += 1
    tf2 = os.path.join(C.WORK, "traces_net_corrupt.json")
    json.dump(bad, open(tf2, "w"))
    res2 = C.run_tlc("Trace_Net", cfg, "trace_net2", workers=2, timeout=600, env={"TRACE_FILE": tf2}, tolerate_eval_errors=True)
    got = max([int(re.match(r'<<"AT", (\d+), (\d+)>>', l).group(2)) for l in res2.printed("AT")] + [0])
    if got != k + 1:
        raise C.MachineryError("a corrupted trace was matched up to event %d, expected rejection at event %d" % (got, k + 1))
    return len(traces), _report(chk, traces, reached, crashed, seeds)


def main(which):
    chk = C.Check(which, "model_checking")
    quick = C.tier() == "quick"
    sd = C.seed()
    base = open(os.path.join(C.SPEC, "MC_Net.cfg")).read()
    import re
    runs = [("net_a", {"MaxEdges": 3, "MaxEdits": 1, "SAMPLE": 320}), ("net_b", {"MaxEdges": 2, "MaxEdits": 2, "SAMPLE": 220})]
    if not quick:
        runs = [("net_full", {"MaxEdges": 3, "MaxEdits": 2, "SAMPLE": 1500})]
    if which == "C10":
        # synaptic half of C10: only the weight-edit histories matter (set / data_set / make_trainable routes)
        runs = [("net_b", {"MaxEdges": 2, "MaxEdits": 2, "SAMPLE": 400 if quick else 60})]
    if which == "C19":
        # network half of C19: histories with connect and with recordings / trainables that are made and deleted again
        runs = [("net_b", {"MaxEdges": 2, "MaxEdits": 2, "SAMPLE": 150 if quick else 30})]
    states = trans = 0
    sts = []
    model = None
    os.makedirs(C.WORK, exist_ok=True)
    for name, consts in runs:
        cfg = base
        for k, v in consts.items():
            cfg = re.sub(r"%s = \d+" % k, "%s = %d" % (k, v), cfg)
        cfg = re.sub(r"SEEDK = \d+", "SEEDK = %d" % sd, cfg)
        p = os.path.join(C.WORK, name + ".cfg")
        open(p, "w").write(cfg)
        res = C.run_tlc("MC_Net", p, name, timeout=2400)
        if res.violated:
            chk.violation({"tlc_invariant": res.violated}, res.out[-2000:])
            continue
        if not res.ok:
            raise C.MachineryError("MC_Net failed:\n" + res.out[-2000:])
        states += res.distinct
        trans += res.generated
        line = res.printed("MODEL")[0]
        model = json.loads(line[line.index('"{') + 1: line.rindex('}"') + 1].replace('\\"', '"'))
        for line in res.printed("NETSTATE"):
            sts.append(json.loads(line[line.index('"{') + 1: line.rindex('}"') + 1].replace('\\"', '"')))
    if len(sts) < 100:
        raise C.MachineryError("only %d observed states sampled" % len(sts))
    if which == "C10":
        sts = [s for s in sts if any(h["op"] in ("setw", "trainw") for h in s["hist"])]
        if len(sts) < 300:
            raise C.MachineryError("only %d weight-edit histories sampled" % len(sts))
    if which == "C19":
        sts = [s for s in sts if any(h["op"] in ("delrec", "deltrain", "record", "clamp") for h in s["hist"])]
        if len(sts) < 300:
            raise C.MachineryError("only %d deletion histories sampled" % len(sts))
    ops = Counter(h["op"] for s in sts for h in s["hist"])
    for need in (("connect", "setw", "trainw", "deltrain") if which == "C10" else ("connect", "record", "delrec", "trainw", "deltrain", "clamp") if which == "C19" else ("connect", "setw", "sets", "record", "delrec", "clamp", "stim", "trainw", "deltrain")):
        if ops[need] == 0:
            raise C.MachineryError("vacuity: no sampled history contains %s" % need)
    backends = ["jaxley.thomas", "jax.sparse"] if quick else ["jaxley.stone", "jaxley.thomas", "jax.sparse"]
    jobs = [{"model": model, "states": ch, "backends": backends, "layout": sorted(LAYOUTS)[(i + sd) % 2], "salt": i + sd,
             "dup_v": which == "C08"}
            for i, ch in enumerate(C.chunks(sts, C.NCPU * 2))]
    outs = C.run_workers("net_check", jobs, timeout=3000)
    n = 0
    c09 = {"edge_table", "voltages", "raised"}
    c08 = {"recorded_synaptic_rows", "raised"}
    routes = Counter()
    for o in outs:
        routes.update(o.get("routes", {}))
        n += o["states"]
        for m in o["mismatch"]:
            if which != "C19" and m["kind"] not in (c08 if which == "C08" else c09):
                continue
            sig = {k: m[k] for k in ("kind", "ntypes", "layout", "route", "global_edge_index_equals_rank_within_type") if k in m}
            if m["kind"] in ("recorded_synaptic_rows", "raised"):
                sig["clamp_calls"] = min(m.get("clamps", 0), 2)
            chk.violation(sig, m)
    ntraces = nevents = 0
    if which == "C09":
        ntraces, nevents = trace_validation(chk, model, quick, sd)
        # "each synapse reads the voltage of exactly its presynaptic compartment", instantiated on the built-in synapse whose
        # CURRENT (not only its state) depends on the presynaptic voltage (the probe synapses reach the current through a state)
        for bad in pre_voltage_dependence():
            chk.violation({"kind": "pre_voltage_dependent_current", "what": bad["what"], "voltage_solver": bad["voltage_solver"]}, bad)
    prev = None
    evp = os.path.join(C.EVID, which + ".json")
    if which in ("C08", "C10", "C19") and os.environ.get("VERIF_MERGE_EVIDENCE") == "1" and os.path.exists(evp):
        prev = json.load(open(evp))
    chk.set("weight_edit_histories_by_route", dict(routes))
    chk.set("states", states + (prev["coverage"].get("states", 0) if prev else 0))
    chk.set("transitions", trans + (prev["coverage"].get("transitions", 0) if prev else 0))
    chk.set("traces_validated_against_impl", n + ntraces + (prev["coverage"].get("traces_validated_against_impl", 0) if prev else 0))
    chk.set("network_histories_replayed", n)
    if ntraces:
        chk.set("recorded_traces_validated_by_tlc", ntraces)
        chk.set("recorded_trace_events", nevents)
    chk.set("ops_in_sampled_histories", dict(ops))
    chk.set("exhaustive", True)
    chk.set("evaluations", n)
    chk.set("distinct_nontrivial", sum(1 for s in sts if len({e["ty"] for e in s["edges"]}) == 2))
    chk.set("rule", "TLC explores every history of <= 3 connect() calls (pre sites {0,3,5} x post sites {1,4,5}, two probe synapse types, "
                    "autapses and fan-in) followed by <= 2 edits (set weight / initial state through type and k-th-edge views, record "
                    "synaptic state or current, clamp a synaptic state, stimulate) and checks CreationOrderIrrelevant, ZeroWeightIsIsolation, "
                    "OnlyPostCompartmentsMove on all of them; a deterministic 1/SAMPLE hash sample of the observed states is replayed "
                    "on the real network (edge table + integrate vs TLC's integers); non-trivial = both synapse types present")
    for s in sts[:2]:
        chk.sample({"hist": s["hist"], "obs": s["obs"]})
    if prev and which == "C08":
        chk.set("time_loop_part", {k: prev["coverage"].get(k) for k in ("integrate_calls_compared", "refusals_confirmed", "manual_stepping_runs")})
        chk.violations += prev.get("violations", 0)
    if prev and which == "C19":
        chk.set("module_and_set_ncomp_part", {k: v for k, v in prev["coverage"].items() if k not in ("samples",)})
        chk.cov["rule"] = prev["coverage"].get("rule", "") + " || network histories (connect, recordings / clamps / trainables of synapses made and deleted through type, k-th-edge and node-selection views while voltage recordings exist): " + chk.cov["rule"]
        chk.violations += prev.get("violations", 0)
        for fid, cnt in (prev["coverage"].get("known_findings_hit") or {}).items():
            chk.known[fid] = chk.known.get(fid, 0) + cnt
    if prev and which == "C10":
        chk.set("module_part", {k: v for k, v in prev["coverage"].items() if k not in ("samples",)})
        chk.cov["rule"] = prev["coverage"].get("rule", "") + " || synaptic parameters: " + chk.cov["rule"]
        chk.violations += prev.get("violations", 0)
        for fid, cnt in (prev["coverage"].get("known_findings_hit") or {}).items():
            chk.known[fid] = chk.known.get(fid, 0) + cnt
    chk.assume("TLC", "probe synapses P (copies the presynaptic voltage) and Q (counts steps) make the dynamics integer exact",
               "replay is a hash sample of the explored histories (thorough: larger sample, deeper edits)")
    return chk.finish(extra_wall=float(prev.get("wall_s", 0.0)) if prev else 0.0)


if __name__ == "__main__":
    if len(sys.argv) == 3:
        worker()
    else:
        C.main_wrapper(lambda: main(sys.argv[1]))

"""Worker: replay the TLC state graph of Views.tla on the real jaxley (C11).

job: {"model": {...}, "states": [{"path": [labels], "out": [[label, rows, eds, scope], ...],
                                   "refused": [labels]}, ...]}
"""
import json
import sys
import zlib

from harness.jaxsetup import jax, jnp, np, jx
from harness.common import parse_action_label
from jaxley.channels import HH, Leak
from jaxley.connect import connect
from jaxley.synapses import IonotropicSynapse, TestSynapse

SYN = {"Iono": IonotropicSynapse, "Test": TestSynapse}
CHAN = {"HH": HH, "Leak": Leak}


def build_model(model):
    comp = jx.Compartment()
    cells = [jx.Cell([jx.Branch(comp, ncomp=int(k)) for k in cell], parents=[-1] + [0] * (len(cell) - 1))
             for cell in model["shape"]]
    mod = jx.Network(cells) if model["kind"] == "network" else cells[0]
    for e in model["edges"]:
        connect(mod.select(nodes=[e["pre"]]), mod.select(nodes=[e["post"]]), SYN[e["ty"]]())
    for g, rows in sorted(model["groups"].items()):
        mod.select(nodes=sorted(rows)).add_to_group(g)
    for c, rows in sorted(model["chans"].items()):
        mod.select(nodes=sorted(rows)).insert(CHAN[c]())
    return mod


def index_form(view, lv, I, salt):
    """One of the index forms that denote the index set I (rotated deterministically)."""
    I = sorted(I)
    forms = ["list", "array", "dup"]
    if len(I) == 1:
        forms += ["int", "npint"]
    if I == list(range(I[0], I[-1] + 1)):
        forms += ["range", "slice"]
    col = view.nodes[view._scope + "_%s_index" % lv].to_numpy()
    dim = view.nodes["global_%s_index" % lv].nunique()
    shape = (*view.shape, len(view.edges))
    # a mask is only meaningful when the level's indices are 0..dim-1 and its length cannot be
    # mistaken for the size of another level
    if sorted(set(col.tolist())) == list(range(dim)) and all(i < dim for i in I) and list(shape).count(dim) == 1:
        forms.append("mask")
    f = forms[salt % len(forms)]
    if f == "list":
        return f, list(I)
    if f == "array":
        return f, np.array(I)
    if f == "dup":
        return f, list(reversed(I)) + [I[0]]
    if f == "int":
        return f, int(I[0])
    if f == "npint":
        return f, np.int64(I[0])
    if f == "range":
        return f, range(I[0], I[-1] + 1)
    if f == "slice":
        return f, slice(I[0], I[-1] + 1)
    mask = np.zeros(dim, dtype=bool)
    mask[I] = True
    return f, mask


def apply(view, label, model, salt=0):
    name, args = parse_action_label(label)
    if name == "Select":
        form, idx = index_form(view, args[0], args[1], salt)
        return getattr(view, args[0])(idx), form
    if name == "SelectAll":
        return getattr(view, args[0])("all"), "all"
    if name == "SetScope":
        return view.scope(args[0]), ""
    if name == "SelectNodes":
        return view.select(nodes=sorted(args[0])), ""
    if name == "SelectEdges":
        return view.select(edges=sorted(args[0])), ""
    if name == "Group":
        return getattr(view, args[0]), ""
    if name == "Chan":
        return getattr(view, args[0]), ""
    if name == "Syn":
        return getattr(view, SYN[args[0]].__name__), ""
    if name in ("EdgeG", "EdgeL"):
        return view.edge(sorted(args[0])), ""
    if name == "Loc":
        return view.loc(args[0] / model["locden"]), ""
    raise ValueError(label)


def observed(v):
    lei = None
    if len(v.edges) and "local_edge_index" in v.edges.columns:
        lei = sorted([int(i), int(x)] for i, x in v.edges["local_edge_index"].items())
    return [sorted(int(x) for x in v._nodes_in_view), sorted(int(x) for x in v._edges_in_view), v._scope, lei]


def local_indices_ok(v):
    """view.nodes local_* columns are the dense ranks inside each parent (Views.tla LocalIdx)."""
    n = v.nodes
    rows = [int(x) for x in n.index]
    cell = {r: int(n.loc[r, "global_cell_index"]) for r in rows}
    br = {r: int(n.loc[r, "global_branch_index"]) for r in rows}
    for r in rows:
        lc = len({cell[x] for x in rows if cell[x] < cell[r]})
        lb = len({br[x] for x in rows if cell[x] == cell[r] and br[x] < br[r]})
        lk = len([x for x in rows if br[x] == br[r] and x < r])
        if (int(n.loc[r, "local_cell_index"]), int(n.loc[r, "local_branch_index"]), int(n.loc[r, "local_comp_index"])) != (lc, lb, lk):
            return False
    if sorted(rows) != sorted(int(x) for x in v._nodes_in_view):
        return False
    if len(v.edges) and sorted(int(x) for x in v.edges.index) != sorted(int(x) for x in v._edges_in_view):
        return False
    return True


def main():
    job = json.load(open(sys.argv[1]))
    model = job["model"]
    mod = build_model(model)
    out = {"transitions": 0, "refusals": 0, "iter": 0, "lazy": 0, "mismatch": [], "forms": {}}
    for st in job["states"]:
        try:
            v = mod
            for lab in st["path"]:
                v, _ = apply(v, lab, model)
        except Exception as e:
            out["mismatch"].append({"kind": "path_failed", "path": st["path"], "err": repr(e)[:200]})
            continue
        succ = {}
        for lab, rows, eds, scope, lei in st["out"]:
            succ.setdefault(lab, []).append([sorted(rows), sorted(eds), scope, lei])
        for lab, wants in succ.items():
            salt = zlib.crc32((lab + "|".join(st["path"])).encode())
            try:
                v2, form = apply(v, lab, model, salt)
                got = observed(v2)
                ok = got in wants and local_indices_ok(v2)
                err = None
            except Exception as e:
                got, form, err = None, "", type(e).__name__ + ": " + str(e)[:150]
                ok = lab in st.get("may_refuse", [])      # loc() at a compartment boundary, see Views.tla
            out["transitions"] += 1
            if form:
                out["forms"][form] = out["forms"].get(form, 0) + 1
            if not ok:
                out["mismatch"].append({"kind": "transition", "path": st["path"], "label": lab, "form": form,
                                        "got": got, "want": wants, "err": err})
        for lab in st["refused"] + st.get("quirk", []):
            try:
                v2, form = apply(v, lab, model, 0)
                out["mismatch"].append({"kind": "not_refused", "path": st["path"], "label": lab, "got": observed(v2)})
            except Exception:
                pass
            out["refusals"] += 1
        # iteration and lazy indexing agree with the method form
        for lv, prop in (("cell", "cells"), ("branch", "branches"), ("comp", "comps")):
            if not v.base._has_childview(lv):
                continue
            col = v.nodes[v._scope + "_%s_index" % lv]
            got = [observed(x) for x in getattr(v, prop)]
            want = [observed(getattr(v, lv)(int(i))) for i in col.unique()]
            out["iter"] += len(got)
            if got != want:
                out["mismatch"].append({"kind": "iteration", "path": st["path"], "level": lv})
        if st.get("lazy"):
            children = v._childviews()
            for lab, rows, eds, scope, lei in st["out"]:
                name, args = parse_action_label(lab)
                if name == "Select" and children and args[0] == children[0] and len(args[1]) == 1:
                    try:
                        got = observed(v[int(list(args[1])[0])])
                        if got != [sorted(rows), sorted(eds), scope, lei]:
                            out["mismatch"].append({"kind": "lazy", "path": st["path"], "label": lab, "got": got})
                        out["lazy"] += 1
                    except AssertionError:
                        pass
    json.dump(out, open(sys.argv[2], "w"), default=str)


if __name__ == "__main__":
    main()

"""Worker: replay the configurations of Integrate.tla on the real jaxley.integrate (C06, C07, C08).

job: {"opts": {...}, "items": [{"cfg": {...}, "phase": ..., "obs": {...}, "n1": k}, ...]}
"""
import json
import sys

from harness.jaxsetup import jax, jnp, np, jx
from harness import probes
from harness.probes import DT, tok
from jaxley.integrate import build_init_and_step_fn

K = [2, 4, 6]


def amp(k):
    return 10 + k


def amp2(k):
    return 100 * k


def cl(k):
    return 1000 + 7 * k


def amp3(k):
    return 1000 + 3 * k


def data_stim(cfg, cell, first=1, n=None):
    """the data-fed stimulus of Integrate.tla (compartment 0), or None"""
    if not cfg.get("dat"):
        return None
    n = cfg["tin"] if n is None else n
    return cell.branch(0).comp(0).data_stimulate(jnp.asarray([float(amp3(k)) for k in range(first, first + n)]), None)


def build(cfg, first=1, n=None, static_clamp=True):
    """Probe cell of Integrate.tla with the inputs of samples first .. first+n-1 inserted statically."""
    cell = probes.build_cell([3], K)
    a = probes.A()
    cell.branch(0).comp(0).insert(a)
    cell.branch(0).comp(0).set("A_g", 1.0)
    n = cfg["tin"] if n is None else n
    ks = range(first, first + n)
    cell.branch(0).comp(1).stimulate(jnp.asarray([float(amp(k)) for k in ks]), verbose=False)
    if cfg["two"]:
        cell.branch(0).comp(1).stimulate(jnp.asarray([float(amp2(k)) for k in ks]), verbose=False)
    if cfg["clamp"] and static_clamp:
        cell.branch(0).comp(2).clamp("v", jnp.asarray([float(cl(k)) for k in ks]), verbose=False)
    cell.record("v", verbose=False)
    cell.branch(0).comp(0).record("A_s", verbose=False)
    return cell


def kwargs(cfg):
    kw = {"delta_t": DT}
    if cfg["tmax"] > 0:
        kw["t_max"] = (cfg["tmax"] - 1) * DT
    if len(cfg["L"]) > 0:
        kw["checkpoint_lengths"] = [int(x) for x in cfg["L"]]
    return kw


def toks(a):
    return [[tok(x) for x in row] for row in np.asarray(a)]


def state_toks(st):
    v = np.asarray(st["v"])
    return {"v": [tok(x) for x in v], "c": tok(np.asarray(st["A_s"])[0])}


def run_item(it, opts, out):
    cfg, phase = it["cfg"], it["phase"]
    vs = opts["backends"][it["k"] % len(opts["backends"])]
    sig = {"tin": cfg["tin"], "tmax": cfg["tmax"], "two": cfg["two"], "clamp": cfg["clamp"], "dat": cfg.get("dat", False), "L": list(cfg["L"]),
           "voltage_solver": vs}
    if phase == "refused":
        try:
            c0 = build(cfg)
            jx.integrate(c0, voltage_solver=vs, data_stimuli=data_stim(cfg, c0), **kwargs(cfg))
            out["mismatch"].append({"kind": "not_refused", **sig})
        except Exception:
            out["refused"] += 1
        return
    want = it["obs"]
    want_recs = [list(col) for col in zip(*want["recs"])]        # rows = recordings, columns = time
    want_ret = {"v": list(want["ret"]["v"]), "c": want["ret"]["c"]}
    if phase == "observed":
        cell = build(cfg)
        before = (cell.nodes.to_json(orient="split"), {k: np.asarray(v).tolist() for k, v in cell.externals.items()},
                  {k: np.asarray(v).tolist() for k, v in cell.external_inds.items()}, cell.recordings.to_numpy().tolist())
        ds = data_stim(cfg, cell)
        recs, states = jx.integrate(cell, voltage_solver=vs, return_states=True, data_stimuli=ds, **kwargs(cfg))
        out["runs"] += 1
        if toks(recs) != want_recs:
            out["mismatch"].append({"kind": "recordings", **sig, "got": toks(recs), "want": want_recs})
        got_ret = state_toks(states)
        if got_ret != want_ret:
            out["mismatch"].append({"kind": "returned_state", **sig, "prod_gt_steps": bool(cfg["L"]) and int(np.prod(cfg["L"])) > want["n"],
                                    "got": got_ret, "want": want_ret})
        # C06: integrate does not change the module and is repeatable bit for bit
        after = (cell.nodes.to_json(orient="split"), {k: np.asarray(v).tolist() for k, v in cell.externals.items()},
                 {k: np.asarray(v).tolist() for k, v in cell.external_inds.items()}, cell.recordings.to_numpy().tolist())
        if after != before:
            out["mismatch"].append({"kind": "module_changed", **sig})
        again = jx.integrate(cell, voltage_solver=vs, data_stimuli=ds, **kwargs(cfg))
        if not np.array_equal(np.asarray(again), np.asarray(recs)):
            out["mismatch"].append({"kind": "repeat_differs", **sig})
        if cfg["clamp"]:
            # C08: data_clamp behaves exactly like clamp (the same module without the static clamp, the series fed as data)
            c3 = build(cfg, static_clamp=False)
            dc = c3.branch(0).comp(2).data_clamp("v", jnp.asarray([float(cl(k)) for k in range(1, cfg["tin"] + 1)]), None)
            try:
                r3 = jx.integrate(c3, voltage_solver=vs, data_stimuli=data_stim(cfg, c3), data_clamps=dc, **kwargs(cfg))
                out["runs"] += 1
                if toks(r3) != want_recs:
                    out["mismatch"].append({"kind": "data_clamp_differs_from_clamp", **sig, "got": toks(r3), "want": want_recs})
            except Exception as e:
                out["mismatch"].append({"kind": "data_clamp_differs_from_clamp", **sig, "err": type(e).__name__ + ": " + str(e)[:150]})
        if it["k"] % opts["modes_every"] == 0:
            # jit, and data_stimulate (functional inputs) vmapped over a batch of amplitudes
            kw = kwargs(cfg)
            with jax.disable_jit(False):
                jit_out = jax.jit(lambda: jx.integrate(cell, voltage_solver=vs, data_stimuli=data_stim(cfg, cell), **kw))()
            out["mode_runs"] += 1
            if not np.allclose(np.asarray(jit_out), np.asarray(recs), rtol=1e-12, atol=1e-9):
                out["mismatch"].append({"kind": "jit_differs", **sig})
            if vs != "jax.sparse" and not cfg.get("dat"):        # jax's spsolve has no batching rule: vmap is refused by JAX itself
                base = build({**cfg, "two": False})
                base.delete_stimuli()
                ks = range(1, cfg["tin"] + 1)
                amps = jnp.asarray([[float(amp(k)) * s for k in ks] for s in (1.0, 2.0, 3.0)])

                def sim(a):
                    ds = base.branch(0).comp(1).data_stimulate(a, None)
                    return jx.integrate(base, data_stimuli=ds, voltage_solver=vs, **kw)
                try:
                    with jax.disable_jit(False):
                        vm = np.asarray(jax.vmap(sim)(amps))
                    seq = np.stack([np.asarray(sim(a)) for a in amps])
                    out["mode_runs"] += 1
                    if not np.allclose(vm, seq, rtol=1e-12, atol=1e-9):
                        out["mismatch"].append({"kind": "vmap_differs", **sig})
                    if not cfg["two"] and toks(seq[0]) != want_recs:
                        out["mismatch"].append({"kind": "data_stimulate_differs_from_stimulate", **sig})
                except Exception as e:
                    if cfg["clamp"] and cfg["tmax"] > cfg["tin"]:
                        pass
                    else:
                        out["mismatch"].append({"kind": "vmap_raised", **sig, "err": type(e).__name__ + ": " + str(e)[:150]})
        # C07: manual stepping with the public init/step functions gives the same columns
        if it["k"] % opts["manual_every"] == 0 and not cfg["L"] and not cfg.get("dat"):
            init_fn, step_fn = build_init_and_step_fn(cell, voltage_solver=vs)
            st, params = init_fn([], None, None, DT)
            cols = [[tok(x) for x in list(np.asarray(st["v"])) + [np.asarray(st["A_s"])[0]]]]
            n = want["n"]
            for k in range(1, n + 1):
                ext = {}
                inr = k <= cfg["tin"]
                stim = [float(amp(k)) if inr else 0.0] + ([float(amp2(k)) if inr else 0.0] if cfg["two"] else [])
                if cfg.get("dat"):
                    continue_manual = False
                ext["i"] = jnp.asarray(stim)
                if cfg["clamp"]:
                    ext["v"] = jnp.asarray([float(cl(k))])
                st = step_fn(st, params, ext, delta_t=DT)
                cols.append([tok(x) for x in list(np.asarray(st["v"])) + [np.asarray(st["A_s"])[0]]])
            out["manual_runs"] += 1
            if [list(r) for r in zip(*cols)] != want_recs:
                out["mismatch"].append({"kind": "manual_stepping_differs", **sig})
    elif phase == "split":
        n1 = it["n1"]
        c1 = build(cfg, 1, n1)
        c2 = build(cfg, n1 + 1, cfg["tin"] - n1)
        p1 = p2 = []
        if it["k"] % 2 == 1:
            # the same continuation with trainable initial states whose params are passed to both calls: the returned
            # states, not the trainable initial values, must start the second call
            for c_ in (c1, c2):
                c_.make_trainable("v", verbose=False)
                c_.branch(0).comp(0).make_trainable("A_s", verbose=False)
            p1, p2 = c1.get_parameters(), c2.get_parameters()
        r1, s1 = jx.integrate(c1, params=p1, voltage_solver=vs, return_states=True, data_stimuli=data_stim(cfg, c1, 1, n1), delta_t=DT)
        r2, s2 = jx.integrate(c2, params=p2, voltage_solver=vs, return_states=True, all_states=s1,
                              data_stimuli=data_stim(cfg, c2, n1 + 1, cfg["tin"] - n1), delta_t=DT)
        out["splits"] += 1
        joined = np.concatenate([np.asarray(r1), np.asarray(r2)[:, 1:]], axis=1)
        if toks(joined) != want_recs:
            out["mismatch"].append({"kind": "split_recordings", **sig, "n1": n1, "got": toks(joined), "want": want_recs})
        if state_toks(s2) != want_ret:
            out["mismatch"].append({"kind": "split_returned_state", **sig, "n1": n1})
        if toks(np.asarray(r2)[:, :1]) != [[x] for x in [r[n1] for r in want_recs]]:
            out["mismatch"].append({"kind": "continuation_column0", **sig, "n1": n1})


def main():
    job = json.load(open(sys.argv[1]))
    out = {"runs": 0, "refused": 0, "splits": 0, "mode_runs": 0, "manual_runs": 0, "mismatch": []}
    for it in job["items"]:
        for attempt in (1, 2):
            n_before = len(out["mismatch"])
            try:
                with jax.disable_jit(job["opts"].get("eager", True)):
                    run_item(it, job["opts"], out)
                break
            except Exception as e:
                # an exception where the specification expects a result is a finding only if it is reproducible:
                # the item is run a second time from scratch (a real defect raises again)
                del out["mismatch"][n_before:]
                if attempt == 2:
                    out["mismatch"].append({"kind": "raised", "cfg": it["cfg"], "phase": it["phase"],
                                            "tin": it["cfg"]["tin"], "tmax": it["cfg"]["tmax"], "L": list(it["cfg"]["L"]),
                                            "err": type(e).__name__ + ": " + str(e)[:200],
                                            "traceback": __import__("traceback").format_exc()[-2500:]})
                else:
                    out["retried"] = out.get("retried", 0) + 1
                    jax.clear_caches()
    json.dump(out, open(sys.argv[2], "w"), default=str)


if __name__ == "__main__":
    main()

"""Worker: replay TLC-enumerated morphologies on the real jaxley (C01, C02).

usage: python -m harness.replay_cable <jobfile> <outfile>
job: {"opts": {...}, "configs": [{"id":..., "parents": [...], "ncomp": [...]}, ...]}
For every configuration the module is built through the public API with seeded random positive
parameters and ONE step is taken through the public step function (build_init_and_step_fn) for
every (solver, voltage_solver) pair and several dt.  The raw measurements are written out; the
verdicts are taken by harness/c01.py.
"""
import json
import sys
import time

from harness.jaxsetup import jax, jnp, np, jx, build_forest
from harness import evaluator as ev
from jaxley.channels import Leak
from jaxley.integrate import build_init_and_step_fn

BACKENDS = ["jaxley.stone", "jaxley.thomas", "jax.sparse"]


def draw_params(m, rng):
    n = m.ncomps
    par = {
        "r": rng.uniform(0.3, 5.0, n), "l": rng.uniform(1.0, 100.0, n),
        "ra": 10 ** rng.uniform(1.5, 3.7, n), "cm": rng.uniform(0.5, 2.5, n),
        "v0": rng.uniform(-90.0, -20.0, n),
    }
    has_leak = rng.random(n) < 0.7
    if not has_leak.any():
        has_leak[rng.integers(n)] = True
    g = np.where(has_leak, 10 ** rng.uniform(-5, -2.5, n), 0.0)      # S/cm^2
    e = rng.uniform(-90.0, -50.0, n)
    par["leak"] = has_leak
    par["g"] = g
    par["e"] = e
    par["gm"] = 1000.0 * g                 # uA/cm^2/mV
    par["em"] = 1000.0 * g * e             # uA/cm^2
    stim = rng.random(n) < 0.5
    par["I"] = np.where(stim, rng.uniform(-2.0, 2.0, n), 0.0)
    return par


def build(cfg, par):
    mod = build_forest(cfg["parents"], cfg["ncomp"])
    n = len(mod.nodes)
    mod.set("radius", par["r"])
    mod.set("length", par["l"])
    mod.set("axial_resistivity", par["ra"])
    mod.set("capacitance", par["cm"])
    mod.set("v", par["v0"])
    idx = [int(i) for i in np.where(par["leak"])[0]]
    mod.select(nodes=idx).insert(Leak())
    mod.select(nodes=idx).set("Leak_gLeak", par["g"][idx])
    mod.select(nodes=idx).set("Leak_eLeak", par["e"][idx])
    mod.to_jax()
    return mod


def one_step(mod, solver, vs, dt, v, I):
    init_fn, step_fn = build_init_and_step_fn(mod, voltage_solver=vs, solver=solver)
    states, params = init_fn([], None, None, dt)
    states["v"] = jnp.asarray(v)
    inds = np.where(np.asarray(I) != 0.0)[0]
    if len(inds) > 0:
        externals = {"i": jnp.asarray(np.asarray(I)[inds])}
        external_inds = {"i": jnp.asarray(inds)}
    else:
        externals, external_inds = {}, {}
    out = step_fn(states, params, externals, external_inds, dt)
    return np.asarray(out["v"], dtype=float)


def try_step(mod, solver, vs, dt, v, I):
    try:
        x = one_step(mod, solver, vs, dt, v, I)
        return x, None
    except Exception as e:  # refusal is an allowed outcome (C01); recorded, never compared
        return None, type(e).__name__ + ": " + str(e)[:120]


def measure_config(cfg, opts, rng):
    m = ev.Morph(cfg["parents"], cfg["ncomp"])
    par = draw_params(m, rng)
    mod = build(cfg, par)
    n = m.ncomps
    R, q, cap = ev.np_rate_matrix(m, par)
    rec = {"id": cfg["id"], "parents": cfg["parents"], "ncomp": cfg["ncomp"], "steps": [], "c02": []}
    v = par["v0"]
    for dt in opts["dts"]:
        A, b = ev.np_bwd_system(m, par, dt, v)
        Ah, bh = ev.np_bwd_system(m, par, dt / 2, v)
        cond = float(np.linalg.cond(A[:n, :n] / cap[:, None])) if n > 0 else 1.0
        ref = np.linalg.solve(A, b)[:n]
        sols = {}
        for solver in opts["solvers"]:
            if solver == "fwd_euler" and dt > opts["fwd_dt_max"]:
                continue
            for vs in BACKENDS:
                x, err = try_step(mod, solver, vs, dt, v, par["I"])
                entry = {"dt": dt, "solver": solver, "vs": vs}
                if x is None:
                    entry["refused"] = err
                    rec["steps"].append(entry)
                    continue
                if not np.all(np.isfinite(x)):
                    entry["nonfinite"] = True
                    rec["steps"].append(entry)
                    continue
                if solver == "bwd_euler":
                    rr = ev.row_residuals(A, b, ev.np_extend(m, par, x))
                    entry["res"] = float(rr.max())
                    entry["err"] = float(np.max(np.abs(x - ref)))
                    sols[vs] = x
                elif solver == "crank_nicolson":
                    half = 0.5 * (x + v)          # CN as 2*half - v  <=>  half solves the dt/2 system
                    rr = ev.row_residuals(Ah, bh, ev.np_extend(m, par, half))
                    entry["res"] = float(rr.max())
                else:
                    ve = ev.np_extend(m, par, v)
                    want = v + dt * (R[:n] @ ve + q[:n]) / cap
                    scale = np.abs(v) + dt * (np.abs(R[:n]) @ np.abs(ve) + np.abs(q[:n])) / cap
                    entry["res"] = float(np.max(np.abs(x - want) / scale))
                entry["scale"] = float(np.max(np.abs(x)))
                rec["steps"].append(entry)
        # agreement of accepting backends (bwd), tolerance scaled by the condition number
        names = sorted(sols)
        for i in range(len(names)):
            for j in range(i + 1, len(names)):
                d = float(np.max(np.abs(sols[names[i]] - sols[names[j]])))
                rec["steps"].append({"dt": dt, "solver": "bwd_euler", "vs": names[i] + "|" + names[j],
                                     "agree": d, "cond": cond, "scale": float(np.max(np.abs(ref)))})
    # ---------------- C02 -----------------
    for dt in opts["c02_dts"]:
        A, b = ev.np_bwd_system(m, par, dt, v)
        for vs in opts["c02_backends"]:
            x, err = try_step(mod, "bwd_euler", vs, dt, v, par["I"])
            if x is None:
                rec["c02"].append({"dt": dt, "vs": vs, "refused": err})
                continue
            ent = {"dt": dt, "vs": vs}
            # conservation: sum Cap (x - v) = dt * sum (membrane + injected) at the new voltages
            area = 2 * np.pi * par["r"] * par["l"]
            memb = area * (par["em"] - par["gm"] * x) + 1e5 * par["I"]
            lhs = float(np.sum(cap * (x - v)))
            rhs = float(dt * np.sum(memb))
            sc = float(np.sum(np.abs(cap * x)) + np.sum(np.abs(cap * v)) + dt * np.sum(np.abs(area * par["em"]) + np.abs(area * par["gm"] * x) + np.abs(1e5 * par["I"])))
            ent["cons"] = abs(lhs - rhs) / sc
            # maximum principle (passive, no stimulus): min(v, E) <= x <= max(v, E)
            x0, _ = try_step(mod, "bwd_euler", vs, dt, v, np.zeros(n))
            lo = min(v.min(), par["e"][par["leak"]].min())
            hi = max(v.max(), par["e"][par["leak"]].max())
            ent["overshoot"] = float(max(lo - x0.min(), x0.max() - hi, 0.0))
            ent["range"] = float(hi - lo)
            rec["c02"].append(ent)
        # reciprocity + uniformity on a subset of (dt, backend)
    for dt in opts["recip_dts"]:
        for vs in opts["recip_backends"]:
            x0, err = try_step(mod, "bwd_euler", vs, dt, v, np.zeros(n))
            if x0 is None:
                rec["c02"].append({"dt": dt, "vs": vs, "recip_refused": err})
                continue
            resp = np.zeros((n, n))
            for i in range(n):
                I = np.zeros(n)
                I[i] = 1.0
                xi, _ = try_step(mod, "bwd_euler", vs, dt, v, I)
                resp[i] = xi - x0                    # resp[i][j]: change at j caused by 1 nA at i
            asym = np.abs(resp - resp.T)
            sc = np.maximum(np.abs(resp), np.abs(resp.T))
            sc[sc == 0] = 1.0
            rec["c02"].append({"dt": dt, "vs": vs, "recip": float(np.max(asym / sc)), "recip_abs": float(asym.max()),
                               "resp_min": float(resp.min()), "pairs": n * (n - 1) // 2})
    return rec, mod, par, m


def uniform_check(cfg, opts, rng, mod_par=None):
    """A uniform voltage U with every reversal at U and no stimulus stays uniform."""
    m = ev.Morph(cfg["parents"], cfg["ncomp"])
    par = draw_params(m, rng)
    U = float(rng.uniform(-80, -40))
    par["e"] = np.full(m.ncomps, U)
    par["em"] = par["gm"] * U
    par["v0"] = np.full(m.ncomps, U)
    mod = build(cfg, par)
    out = []
    for dt in opts["recip_dts"]:
        for vs in BACKENDS:
            x, err = try_step(mod, "bwd_euler", vs, dt, par["v0"], np.zeros(m.ncomps))
            if x is None:
                out.append({"dt": dt, "vs": vs, "refused": err})
            else:
                out.append({"dt": dt, "vs": vs, "unif": float(np.max(np.abs(x - U)) / abs(U))})
    return out


def main():
    job = json.load(open(sys.argv[1]))
    opts = job["opts"]
    results = []
    t0 = time.time()
    for k, cfg in enumerate(job["configs"]):
        rng = np.random.default_rng([opts["seed"], cfg["id"]])
        with jax.disable_jit():
            rec, mod, par, m = measure_config(cfg, opts, rng)
            if opts.get("uniform"):
                rec["uniform"] = uniform_check(cfg, opts, rng)
        results.append(rec)
        if (k + 1) % 20 == 0:
            jax.clear_caches()
    json.dump({"results": results, "wall": time.time() - t0}, open(sys.argv[2], "w"))


if __name__ == "__main__":
    main()

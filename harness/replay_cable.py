"""Worker: replay TLC-enumerated morphologies on the real jaxley (C01, C02).

usage: python -m harness.replay_cable <jobfile> <outfile>
job: {"opts": {...}, "configs": [{"id":..., "parents": [...], "ncomp": [...]}, ...]}
For every configuration the module is built through the public API with seeded random positive
parameters and ONE step is taken through the public step function (build_init_and_step_fn) for
every (solver, voltage_solver) pair and several dt.  The raw measurements are written out; the
verdicts are taken by harness/c01.py.
"""
import json
import sys
import time

from harness.jaxsetup import jax, jnp, np, jx, build_forest
from harness import evaluator as ev
from jaxley.channels import Leak
from jaxley.integrate import build_init_and_step_fn

BACKENDS = ["jaxley.stone", "jaxley.thomas", "jax.sparse"]


def draw_params(m, rng):
    n = m.ncomps
    par = {
        "r": rng.uniform(0.3, 5.0, n), "l": rng.uniform(1.0, 100.0, n),
        "ra": 10 ** rng.uniform(1.5, 3.7, n), "cm": rng.uniform(0.5, 2.5, n),
        "v0": rng.uniform(-90.0, -20.0, n),
    }
    has_leak = rng.random(n) < 0.7
    if not has_leak.any():
        has_leak[rng.integers(n)] = True
    g = np.where(has_leak, 10 ** rng.uniform(-5, -2.5, n), 0.0)      # S/cm^2
    e = rng.uniform(-90.0, -50.0, n)
    par["leak"] = has_leak
    par["g"] = g
    par["e"] = e
    par["gm"] = 1000.0 * g                 # uA/cm^2/mV
    par["em"] = 1000.0 * g * e             # uA/cm^2
    stim = rng.random(n) < 0.5
    par["I"] = np.where(stim, rng.uniform(-2.0, 2.0, n), 0.0)
    return par


def build(cfg, par):
    mod = build_forest(cfg["parents"], cfg["ncomp"])
    n = len(mod.nodes)
    mod.set("radius", par["r"])
    mod.set("length", par["l"])
    mod.set("axial_resistivity", par["ra"])
    mod.set("capacitance", par["cm"])
    mod.set("v", par["v0"])
    idx = [int(i) for i in np.where(par["leak"])[0]]
    mod.select(nodes=idx).insert(Leak())
    mod.select(nodes=idx).set("Leak_gLeak", par["g"][idx])
    mod.select(nodes=idx).set("Leak_eLeak", par["e"][idx])
    mod.to_jax()
    return mod


class Stepper:
    """One public step function per (solver, backend); eager (C01) or jitted (C02)."""

    def __init__(self, mod, jit, param_state=None):
        self.mod = mod
        self.jit = jit
        self.param_state = param_state
        self.cache = {}

    def get(self, solver, vs):
        key = (solver, vs)
        if key not in self.cache:
            init_fn, step_fn = build_init_and_step_fn(self.mod, voltage_solver=vs, solver=solver)
            states, params = init_fn([], None, self.param_state, 0.025)
            n = len(self.mod.nodes)
            all_inds = jnp.arange(n)

            def f(v, I, dt, eleak=None):
                st = dict(states)
                st["v"] = v
                p = params
                if eleak is not None:             # same model with other reversal potentials
                    p = dict(params)
                    p["Leak_eLeak"] = eleak
                return step_fn(st, p, {"i": I}, {"i": all_inds}, dt)["v"]

            self.cache[key] = jax.jit(f) if self.jit else f
        return self.cache[key]

    def step(self, solver, vs, dt, v, I, eleak=None):
        """Returns (x, None) or (None, reason) when the code refuses the model (allowed by C01)."""
        try:
            f = self.get(solver, vs)
            if eleak is None:
                eleak = self.mod.nodes["Leak_eLeak"].to_numpy()
            x = np.asarray(f(jnp.asarray(v, dtype=float), jnp.asarray(I, dtype=float), dt,
                             jnp.asarray(eleak, dtype=float)), dtype=float)
            return x, None
        except Exception as e:
            return None, type(e).__name__ + ": " + str(e)[:120]


def measure_c01(cfg, opts, rng):
    m = ev.Morph(cfg["parents"], cfg["ncomp"])
    par = draw_params(m, rng)
    mod = build(cfg, par)
    S = Stepper(mod, jit=bool(opts.get("jit")))
    n = m.ncomps
    R, q, cap = ev.np_rate_matrix(m, par)
    rec = {"id": cfg["id"], "parents": cfg["parents"], "ncomp": cfg["ncomp"], "steps": []}
    v = par["v0"]
    plan = [("bwd_euler", dt) for dt in cfg.get("bwd_dts", opts["bwd_dts"])] \
        + [("crank_nicolson", dt) for dt in cfg.get("cn_dts", opts["cn_dts"])] \
        + [("fwd_euler", dt) for dt in opts["fwd_dts"]]
    for solver, dt in plan:
        A, b = ev.np_bwd_system(m, par, dt if solver != "crank_nicolson" else dt / 2, v)
        sols = {}
        for vs in (opts["fwd_backends"] if solver == "fwd_euler" else BACKENDS):
            x, err = S.step(solver, vs, dt, v, par["I"])
            entry = {"dt": dt, "solver": solver, "vs": vs}
            rec["steps"].append(entry)
            if x is None:
                entry["refused"] = err
                continue
            if x.shape != (n,) or not np.all(np.isfinite(x)):
                entry["res"] = float("inf")
                continue
            if solver == "bwd_euler":
                entry["res"] = float(ev.row_residuals(A, b, ev.np_extend(m, par, x)).max())
                sols[vs] = x
            elif solver == "crank_nicolson":
                half = 0.5 * (x + v)          # CN as 2*half - v  <=>  half solves the dt/2 system
                entry["res"] = float(ev.row_residuals(A, b, ev.np_extend(m, par, half)).max())
            else:
                ve = ev.np_extend(m, par, v)
                want = v + dt * (R[:n] @ ve + q[:n]) / cap
                scale = np.abs(v) + dt * (np.abs(R[:n]) @ np.abs(ve) + np.abs(q[:n])) / cap
                entry["res"] = float(np.max(np.abs(x - want) / scale))
        if solver == "bwd_euler" and len(sols) > 1:
            cond = float(np.linalg.cond(A[:n, :n] / cap[:, None] if m.nbp == 0 else A))
            names = sorted(sols)
            for i in range(len(names)):
                for j in range(i + 1, len(names)):
                    d = float(np.max(np.abs(sols[names[i]] - sols[names[j]])))
                    rec["steps"].append({"dt": dt, "solver": solver, "vs": names[i] + "|" + names[j], "agree": d,
                                         "cond": cond, "scale": float(max(np.max(np.abs(sols[names[i]])), 1.0))})
    # every k-th configuration: the same step through the jitted integrate() (scan path)
    if opts.get("integrate_every") and cfg["id"] % opts["integrate_every"] == 0:
        dt = cfg.get("bwd_dts", opts["bwd_dts"])[0]
        mod.delete_recordings()
        mod.record("v", verbose=False)
        stim = np.where(par["I"] != 0)[0]
        for i in stim:
            mod.select(nodes=[int(i)]).stimulate(jnp.asarray([par["I"][i]] * 2), verbose=False)
        A, b = ev.np_bwd_system(m, par, dt, v)
        for vs in BACKENDS:
            entry = {"dt": dt, "solver": "bwd_euler", "vs": vs, "via": "integrate"}
            rec["steps"].append(entry)
            try:
                out = np.asarray(jx.integrate(mod, delta_t=dt, t_max=dt, voltage_solver=vs))
                x = out[:, 1]
                entry["res"] = float(ev.row_residuals(A, b, ev.np_extend(m, par, x)).max())
                entry["col0"] = float(np.max(np.abs(out[:, 0] - v)))
            except Exception as e:
                entry["refused"] = type(e).__name__ + ": " + str(e)[:120]
    return rec


def measure_c02(cfg, opts, rng):
    m = ev.Morph(cfg["parents"], cfg["ncomp"])
    par = draw_params(m, rng)
    mod = build(cfg, par)
    S = Stepper(mod, jit=True)
    n = m.ncomps
    R, q, cap = ev.np_rate_matrix(m, par)
    area = 2 * np.pi * par["r"] * par["l"]
    v = par["v0"]
    rec = {"id": cfg["id"], "parents": cfg["parents"], "ncomp": cfg["ncomp"], "c02": []}
    Elo, Ehi = par["e"][par["leak"]].min(), par["e"][par["leak"]].max()
    for vs in opts["backends"]:
        for dt in opts["dts"]:
            x, err = S.step("bwd_euler", vs, dt, v, par["I"])
            ent = {"dt": dt, "vs": vs}
            rec["c02"].append(ent)
            if x is None:
                ent["refused"] = err
                break
            # conservation: sum Cap (x - v) = dt * sum (membrane + injected current) at the new voltages.
            # Error model: a backward-stable solve leaves row residuals of a few ulps of (|A||x| + |b|);
            # the conservation defect is the sum of the compartment rows' residuals.
            A, b = ev.np_bwd_system(m, par, dt, v)
            xe = ev.np_extend(m, par, x)
            rowscale = np.abs(A) @ np.abs(xe) + np.abs(b)
            memb = area * (par["em"] - par["gm"] * x) + 1e5 * par["I"]
            lhs = float(np.sum(cap * (x - v)))
            rhs = float(dt * np.sum(memb))
            ent["cons"] = abs(lhs - rhs) / float(np.sum(rowscale[:n]))
            # forward error of any backward-stable solver is bounded by cond * eps: tolerances of the
            # statements about x itself (bounds, uniformity, reciprocity) are scaled by it
            Aeq = A / np.abs(A).max(axis=1, keepdims=True)
            ent["cond"] = float(np.linalg.cond(Aeq))
            # discrete maximum principle (passive, unstimulated): min(v, E) <= x <= max(v, E)
            x0, _ = S.step("bwd_euler", vs, dt, v, np.zeros(n))
            lo, hi = min(v.min(), Elo), max(v.max(), Ehi)
            ent["overshoot"] = float(max(lo - x0.min(), x0.max() - hi, 0.0)) / float(max(abs(lo), abs(hi)))
        else:
            for dt in (opts["recip_dts"] if vs in opts["recip_backends"] else []):
                # reciprocity for ALL ordered pairs: response at j to a point current at i
                amp = 1e6                           # the step is affine in I: a large amplitude keeps the
                x0, _ = S.step("bwd_euler", vs, dt, v, np.zeros(n))      # response above round-off of |v|
                resp = np.zeros((n, n))
                for i in range(n):
                    I = np.zeros(n)
                    I[i] = amp
                    xi, _ = S.step("bwd_euler", vs, dt, v, I)
                    resp[i] = (xi - x0) / amp
                asym = float(np.abs(resp - resp.T).max())
                A, b = ev.np_bwd_system(m, par, dt, v)
                cond = float(np.linalg.cond(A / np.abs(A).max(axis=1, keepdims=True)))
                rec["c02"].append({"dt": dt, "vs": vs, "recip": asym / float(np.abs(resp).max()), "cond": cond,
                                   "resp_neg": float(min(resp.min(), 0.0) / np.abs(resp).max()), "pairs": n * (n - 1) // 2})
    # the same model with its capacitances bound FUNCTIONALLY (tables hold 1.0, the real values come through data_set): the
    # coupling is pre-divided by the capacitance, so every term has to see the bound value - conservation again, and equality
    import pickle
    mod2 = pickle.loads(pickle.dumps(mod))
    mod2.set("capacitance", 1.0)
    ps = None
    for i_ in range(n):                     # one scalar per compartment (data_set takes no arrays)
        ps = mod2.select(nodes=[i_]).data_set("capacitance", jnp.asarray(float(par["cm"][i_])), ps)
    S2 = Stepper(mod2, jit=True, param_state=ps)
    for vs in opts["backends"]:
        dt = opts["dts"][(cfg["id"] + len(vs)) % len(opts["dts"])]
        x1, e1 = S.step("bwd_euler", vs, dt, v, par["I"])
        x2, e2 = S2.step("bwd_euler", vs, dt, v, par["I"])
        if x1 is None or x2 is None:
            if (x1 is None) != (x2 is None):
                rec["c02"].append({"dt": dt, "vs": vs, "bound_cm": 1.0, "bound_cm_err": e1 or e2})
            continue
        rec["c02"].append({"dt": dt, "vs": vs, "bound_cm": float(np.max(np.abs(x1 - x2)) / max(np.max(np.abs(x1)), 1.0))})
    # a uniform voltage U with every reversal at U and no stimulus stays uniform
    U = float(rng.uniform(-80, -40))
    par2 = dict(par)
    par2["e"] = np.full(n, U)
    par2["em"] = par["gm"] * U
    vU = np.full(n, U)
    for vs in opts["backends"]:
        for dt in opts["dts"]:
            x, err = S.step("bwd_euler", vs, dt, vU, np.zeros(n), eleak=np.where(par["leak"], U, np.nan))
            if x is None:
                rec["c02"].append({"dt": dt, "vs": vs, "unif_refused": err})
                break
            A, b = ev.np_bwd_system(m, par2, dt, vU)
            cond = float(np.linalg.cond(A / np.abs(A).max(axis=1, keepdims=True)))
            rec["c02"].append({"dt": dt, "vs": vs, "unif": float(np.max(np.abs(x - U)) / abs(U)), "cond": cond})
    return rec


def main():
    job = json.load(open(sys.argv[1]))
    opts = job["opts"]
    results = []
    t0 = time.time()
    for k, cfg in enumerate(job["configs"]):
        rng = np.random.default_rng([opts["seed"], cfg["id"]])
        if opts["mode"] == "c01":
            with jax.disable_jit():
                rec = measure_c01(cfg, opts, rng)
        else:
            rec = measure_c02(cfg, opts, rng)
        results.append(rec)
        if (k + 1) % opts.get("clear_every", 10) == 0:
            jax.clear_caches()
    json.dump({"results": results, "wall": time.time() - t0}, open(sys.argv[2], "w"))


if __name__ == "__main__":
    main()

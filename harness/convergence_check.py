"""C15: convergence to cable theory (order conditions by TLC over Z_p + deterministic refinement ladder on the real code).

usage: python -m harness.convergence_check
"""
import math
import os
import sys

from harness import common as C


def main():
    chk = C.Check("C15", "other")
    quick = C.tier() == "quick"
    res = C.run_tlc("OrderCond", os.path.join(C.SPEC, "OrderCond.cfg"), "ordercond", workers=2, timeout=300)
    if res.violated:
        chk.violation({"tlc_invariant": res.violated}, res.out[-2000:])
    elif not res.ok:
        raise C.MachineryError("OrderCond.tla failed:\n" + res.out[-1500:])
    from harness.jaxsetup import jax, jnp, np, jx
    from jaxley.channels import Leak
    backends = ["jaxley.stone", "jaxley.thomas", "jax.sparse"]
    evals = 0
    results = {}

    # ---------------- geometry / passive parameters (several length constants) ----------------
    cases = [dict(r=1.0, ra=150.0, g=3e-4, L=800.0, I=0.1, E=-70.0, cm=1.0),
             dict(r=0.5, ra=100.0, g=1e-4, L=1500.0, I=0.05, E=-65.0, cm=1.0)]
    if quick:
        cases = cases[C.seed() % 2: C.seed() % 2 + 1]
    rungs = [4, 8, 16, 32, 64] if quick else [4, 8, 16, 32, 64, 128]
    for ci, p in enumerate(cases):
        a_cm = p["r"] * 1e-4
        r_i = p["ra"] / (math.pi * a_cm ** 2)              # ohm / cm
        r_m = 1.0 / (p["g"] * 2 * math.pi * a_cm)          # ohm cm
        lam = math.sqrt(r_m / r_i) * 1e4                   # um
        Rlam = r_i * (lam * 1e-4)                          # ohm

        def green(x, x0):
            """steady voltage change (mV) at x for I nA injected at x0 on a cable sealed at 0 and L"""
            lo, hi = min(x, x0), max(x, x0)
            return p["I"] * 1e-9 * Rlam * math.cosh(lo / lam) * math.cosh((p["L"] - hi) / lam) / math.sinh(p["L"] / lam) * 1e3
        # the same cable as one branch, and cut into two branches in series (a branch point in the middle) whose
        # capacitances differ from 1 and from each other: the steady state and the order do not depend on either
        for variant, cms in (("one_branch", [p["cm"]]), ("two_branches", [2.0, 0.7])):
            for vs in backends:
                errs = []
                for n in rungs:
                    comp = jx.Compartment()
                    l = p["L"] / n
                    if len(cms) == 1:
                        br = jx.Branch(comp, ncomp=n)
                    else:
                        br = jx.Cell([jx.Branch(comp, ncomp=n // 2), jx.Branch(comp, ncomp=n // 2)], parents=[-1, 0])
                    br.set("length", l)
                    br.set("radius", p["r"])
                    br.set("axial_resistivity", p["ra"])
                    if len(cms) == 1:
                        br.set("capacitance", cms[0])
                    else:
                        for b_, cm_ in enumerate(cms):
                            br.branch(b_).set("capacitance", cm_)
                    br.insert(Leak())
                    br.set("Leak_gLeak", p["g"])
                    br.set("Leak_eLeak", p["E"])
                    br.set("v", p["E"])
                    (br.comp(0) if len(cms) == 1 else br.branch(0).comp(0)).stimulate(jnp.asarray([p["I"]] * 3), verbose=False)
                    br.record("v", verbose=False)
                    v = np.asarray(jx.integrate(br, delta_t=1e9, voltage_solver=vs))[:, -1]      # backward Euler, dt -> inf: steady state
                    evals += 1
                    x0 = l / 2
                    exact = np.asarray([p["E"] + green((i + 0.5) * l, x0) for i in range(n)])
                    errs.append(float(np.max(np.abs(v - exact)) / abs(exact[0] - p["E"])))
                orders = [math.log2(errs[i] / errs[i + 1]) for i in range(len(errs) - 1)]
                results["space_case%d_%s_%s" % (ci, variant, vs)] = {"L_over_lambda": p["L"] / lam, "rel_errors": errs, "orders": orders}
                if not all(1.8 <= o <= 2.2 for o in orders[1:]) or errs[-1] > 2e-3:
                    chk.violation({"what": "steady state of a sealed cable does not converge at second order in the compartment length",
                                   "voltage_solver": vs, "cable": variant}, {"params": p, "capacitances": cms, "errors": errs, "orders": orders})
    # ---------------- single compartment: steady state under constant current (absolute units), RC relaxation ----------------
    sc = dict(r=2.0, l=30.0, g=2e-4, E=-70.0, cm=1.5, I=0.02, v0=-50.0)
    area_cm2 = 2 * math.pi * sc["r"] * sc["l"] * 1e-8
    tau = sc["cm"] * 1e-6 / sc["g"] * 1e3                  # ms
    v_ss = sc["E"] + sc["I"] * 1e-9 / (sc["g"] * area_cm2) * 1e3
    T = 8.0
    for vs in backends:
        for solver, lo, hi in (("bwd_euler", 0.9, 1.1), ("crank_nicolson", 1.8, 2.2)):
            errs = []
            ks = range(0, 5) if quick else range(0, 7)
            for k in ks:
                dt = 0.5 / 2 ** k
                nsteps = int(round(T / dt))
                c = jx.Compartment()
                c.set("radius", sc["r"]); c.set("length", sc["l"]); c.set("capacitance", sc["cm"])
                c.insert(Leak()); c.set("Leak_gLeak", sc["g"]); c.set("Leak_eLeak", sc["E"]); c.set("v", sc["v0"])
                c.stimulate(jnp.asarray([sc["I"]] * nsteps), verbose=False)
                c.record("v", verbose=False)
                v = np.asarray(jx.integrate(c, delta_t=dt, solver=solver, voltage_solver=vs))[0]
                evals += 1
                exact = v_ss + (sc["v0"] - v_ss) * math.exp(-T / tau)
                errs.append(abs(float(v[nsteps]) - exact))
            orders = [math.log2(errs[i] / errs[i + 1]) for i in range(len(errs) - 1)]
            results["time_%s_%s" % (solver, vs)] = {"errors": errs, "orders": orders, "tau_ms": tau}
            if not all(lo <= o <= hi for o in orders[1:]):
                chk.violation({"what": "RC relaxation does not converge at the expected order in dt", "solver": solver, "voltage_solver": vs},
                              {"errors": errs, "orders": orders})
        # steady state under constant current is a fixed point of both schemes for any dt: absolute units of nA, S/cm2, um
        c = jx.Compartment()
        c.set("radius", sc["r"]); c.set("length", sc["l"]); c.set("capacitance", sc["cm"])
        c.insert(Leak()); c.set("Leak_gLeak", sc["g"]); c.set("Leak_eLeak", sc["E"]); c.set("v", v_ss)
        c.stimulate(jnp.asarray([sc["I"]] * 20), verbose=False)
        c.record("v", verbose=False)
        for solver in ("bwd_euler", "crank_nicolson", "fwd_euler"):
            try:
                v = np.asarray(jx.integrate(c, delta_t=0.025, solver=solver, voltage_solver=vs))[0]
            except Exception:
                continue
            evals += 1
            if float(np.max(np.abs(v - v_ss))) > 1e-9 * abs(v_ss):
                chk.violation({"what": "E + I/(g*area) is not a fixed point (units of current, conductance or area)", "solver": solver,
                               "voltage_solver": vs}, {"v_ss": v_ss, "got": v[-1]})
    chk.set("evaluations", evals)
    chk.set("distinct_nontrivial", len(results))
    chk.set("ladders", results)
    chk.set("tlc_states", res.distinct)
    chk.set("explanation", "Convergence is a statement about a limit and is outside what a model checker decides. What TLC decides (OrderCond.tla, "
            "over Z_p): the discrete axial operator equals the exact flux divergence for every quadratic on a uniform sealed cable (second order "
            "in space), backward Euler is exact on solutions linear in t, Crank-Nicolson as coded on solutions quadratic in t; with the M-matrix "
            "structure (C02) these are the hypotheses of the Lax theorem (trusted). On the real code a deterministic ladder ncomp = 4*2^k "
            "against the Green's function of a sealed cable (absolute units: um, ohm cm, S/cm2, nA, mV) and dt = 0.5/2^k against the RC "
            "relaxation must show observed orders in [1.8, 2.2] / [0.9, 1.1] and the analytic steady state E + I/(g*A) must be a fixed point.")
    chk.set("rule", "refinement ladders on %d cable geometries x {one branch, two branches in series with capacitances 2.0 / 0.7} x 3 backends (space) and 2 solvers x 3 backends (time); orders from consecutive rungs" % len(cases))
    chk.sample({k: results[k] for k in list(results)[:2]})
    chk.assume("Lax equivalence theorem", "observed orders are taken on the rungs after the first")
    return chk.finish()


if __name__ == "__main__":
    C.main_wrapper(main)

"""C06 / C07 / C08 (time loop): Integrate.tla model-checked by TLC; every configuration replayed on jx.integrate.

usage: python -m harness.integrate_check C06|C07|C08
"""
import collections
import json
import os
import re
import sys

from harness import common as C


def repeat_with_held_inputs():
    from harness.jaxsetup import jax, jnp, np, jx
    from harness import probes
    from jaxley.connect import connect
    out = []
    net = probes.build_net([[2], [2], [2]], [2, 4, 6, 8, 10, 12])
    for pre, post, ty in ((0, 1, "P"), (3, 5, "Q"), (5, 4, "Q"), (2, 4, "P"), (1, 3, "P")):
        connect(net.select(nodes=[pre]), net.select(nodes=[post]), probes.SYN[ty]())
    net.record("v", verbose=False)
    net.select(nodes=[0]).stimulate(jnp.asarray([11.0, 12.0, 13.0]), verbose=False)
    ps = net.P.edge(1).data_set("P_w", jnp.asarray(2.0), None)          # global edge 3, rank 1 within its type
    ps = net.Q.edge(1).data_set("Q_w", jnp.asarray(3.0), ps)            # global edge 2, rank 1
    ds = net.select(nodes=[2]).data_stimulate(jnp.asarray([5.0, 6.0, 7.0]), None)
    dc = net.Q.edge(0).data_clamp("Q_s", jnp.asarray([7.0, 8.0, 9.0]), None)
    twin = pickle_copy(net)
    twin.P.edge(1).set("P_w", 2.0)
    twin.Q.edge(1).set("Q_w", 3.0)
    for vs in ("jaxley.thomas", "jax.sparse"):
        ref = np.asarray(jx.integrate(twin, delta_t=probes.DT, voltage_solver=vs, data_stimuli=ds, data_clamps=dc))
        runs = [np.asarray(jx.integrate(net, delta_t=probes.DT, voltage_solver=vs, param_state=ps, data_stimuli=ds, data_clamps=dc))
                for _ in range(3)]
        with jax.disable_jit(False):
            runs.append(np.asarray(jax.jit(lambda: jx.integrate(net, delta_t=probes.DT, voltage_solver=vs, param_state=ps,
                                                                  data_stimuli=ds, data_clamps=dc))()))
        for i, r in enumerate(runs):
            if r.shape != ref.shape or not np.allclose(r, ref, rtol=1e-12, atol=1e-9):
                out.append({"held_input": "param_state+data_stimuli+data_clamps", "voltage_solver": vs, "call": i + 1,
                            "what": "call %d with the same held inputs differs from the module with the values set in its tables" % (i + 1),
                            "maxdiff": float(np.max(np.abs(r - ref))) if r.shape == ref.shape else None})
                break
    return out


def pickle_copy(m):
    import pickle
    return pickle.loads(pickle.dumps(m))


def main(which):
    chk = C.Check(which, "model_checking")
    quick = C.tier() == "quick"
    cfg_src = open(os.path.join(C.SPEC, "MC_Integrate.cfg")).read()
    if not quick:
        cfg_src = cfg_src.replace("MaxNest = 2", "MaxNest = 3").replace("MaxIn = 4", "MaxIn = 5")
    os.makedirs(C.WORK, exist_ok=True)
    cfgp = os.path.join(C.WORK, "integ.cfg")
    open(cfgp, "w").write(cfg_src)
    dot = os.path.join(C.WORK, "integ.dot")
    res = C.run_tlc("MC_Integrate", cfgp, "integ", dump=dot, timeout=1500)
    if res.violated:
        chk.violation({"tlc_invariant": res.violated}, res.out[-3000:])
        return chk.finish()
    if not res.ok:
        raise C.MachineryError("TLC failed:\n" + res.out[-2000:])
    # regression artefact: with the return value as coded TLC must find F6 from the design alone (non-vacuity)
    cfg2 = os.path.join(C.WORK, "integ_ascoded.cfg")
    open(cfg2, "w").write(re.sub(r"AS_CODED_RET = FALSE", "AS_CODED_RET = TRUE", cfg_src))
    res2 = C.run_tlc("MC_Integrate", cfg2, "integ2", timeout=600)
    if res2.violated != "ReturnedStateIsLastReturned":
        raise C.MachineryError("vacuity: AS_CODED_RET = TRUE does not violate ReturnedStateIsLastReturned")
    nodes, edges, inits = C.parse_dot(dot)
    os.remove(dot)
    items = []
    for k, (nid, st) in enumerate(sorted(nodes.items())):
        if st["phase"] in ("observed", "refused", "split"):
            cfg = dict(st["cfg"])
            cfg["L"] = list(cfg["L"])
            it = {"k": k, "cfg": cfg, "phase": st["phase"], "n1": st["n1"]}
            if st["phase"] != "refused":
                o = st["obs"]
                it["obs"] = {"recs": [list(r) for r in o["recs"]], "ret": {"v": list(o["ret"]["v"]), "c": o["ret"]["c"]}, "n": o["n"]}
            items.append(it)
    phases = collections.Counter(i["phase"] for i in items)
    for need in ("observed", "refused", "split"):
        if phases[need] == 0:
            raise C.MachineryError("vacuity: no %s configuration" % need)
    if which == "C07":
        items = [i for i in items if i["phase"] == "split" or (i["phase"] == "observed")]
    if quick:
        # every second observed configuration (all layouts are still covered), all splits, all refusals
        items = [i for i in items if i["phase"] != "observed" or i["k"] % 3 == C.seed() % 3 or (i["cfg"]["L"] and i["cfg"]["tmax"] == 0 and i["k"] % 2 == 0)]
    opts = {"backends": ["jaxley.stone", "jaxley.thomas", "jax.sparse"], "modes_every": 7 if quick else 2,
            "manual_every": 5 if quick else 1, "eager": True}
    if which != "C06":
        opts["modes_every"] = 10 ** 9
    if which == "C06":
        opts["manual_every"] = 10 ** 9
    jobs = [{"opts": opts, "items": ch} for ch in C.chunks(items, C.NCPU * 2)]
    outs = C.run_workers("replay_integrate", jobs, timeout=3000)
    tot = collections.Counter()
    c06_kinds = {"recordings", "module_changed", "repeat_differs", "jit_differs", "vmap_differs", "vmap_raised",
                 "data_stimulate_differs_from_stimulate", "data_clamp_differs_from_clamp", "raised", "not_refused"}
    c07_kinds = {"returned_state", "split_recordings", "split_returned_state", "continuation_column0", "manual_stepping_differs",
                 "raised"}
    c08_kinds = {"recordings", "data_stimulate_differs_from_stimulate", "data_clamp_differs_from_clamp", "not_refused", "raised", "manual_stepping_differs"}
    mine = {"C06": c06_kinds, "C07": c07_kinds, "C08": c08_kinds}[which]
    for o in outs:
        for k in ("runs", "refused", "splits", "mode_runs", "manual_runs", "retried"):
            tot[k] += o.get(k, 0)
        for mm in o["mismatch"]:
            if mm["kind"] not in mine:
                # C07: a one-call run under a checkpointing layout is a run composed of chunks in time; its recordings must be the
                # ones every split / continued / manually stepped run reproduces (TLC's integers)
                if not (which == "C07" and mm["kind"] == "recordings" and mm.get("L")):
                    continue
            if which == "C06" and mm["kind"] == "recordings" and not mm.get("L"):
                continue            # plain runs are C08's business; C06 is about layouts and modes
            sig = {"kind": mm["kind"], "layout_given": bool(mm.get("L")), "tmax_given": mm.get("tmax", 0) > 0, "data_stimulus": bool(mm.get("dat"))}
            if mm["kind"] == "returned_state":
                sig["prod_checkpoint_lengths_gt_steps"] = mm.get("prod_gt_steps")
            chk.violation(sig, mm)
    nrepeat = 0
    if which == "C06":
        # repeatability with functional inputs that the CALLER holds: the same param_state / data_stimuli / data_clamps objects are
        # passed to integrate again and again (eager, then jit); a network with interleaved synapse types, data_set on synapses
        # whose global index differs from their rank within the type
        for bad in repeat_with_held_inputs():
            chk.violation({"kind": "repeat_differs", "held_input": bad["held_input"], "voltage_solver": bad["voltage_solver"]}, bad)
        nrepeat = 12
    ncompose = 0
    if which == "C07":
        # the same law (Split(k) of Integrate.tla) on a model outside the integer probe domain: a channel that reads a membrane
        # current, i.e. a state that is carried from one step to the next and has to survive the hand-over
        citems = []
        combos = [(vs, so) for vs in opts["backends"] for so in ("bwd_euler", "crank_nicolson")]
        splits = [(60, 25, [5, 5]), (60, 1, None), (40, 39, None), (48, 24, [2, 3, 4]), (50, 10, None), (36, 12, [12])]
        for j, (n, n1, lay) in enumerate(splits):
            for i_, (vs, so) in enumerate(combos):
                if quick and (i_ + j + C.seed()) % 3 != 0:
                    continue
                citems.append({"n": n, "n1": n1, "vs": vs, "solver": so, "layout": lay, "manual": (i_ + j) % 2 == 0})
        couts = C.run_workers("replay_compose", [{"items": ch} for ch in C.chunks(citems, C.NCPU)], timeout=3000)
        for o in couts:
            ncompose += o["runs"]
            for mm in o["mismatch"]:
                chk.violation({k: mm[k] for k in ("kind", "model", "layout") if k in mm}, mm)
    chk.set("continuations_of_a_current_reading_model", ncompose)
    chk.set("repeated_calls_with_held_functional_inputs", nrepeat)
    chk.set("states", res.distinct)
    chk.set("transitions", res.generated)
    chk.set("traces_validated_against_impl", ncompose + tot["runs"] + tot["splits"] + tot["refused"] + tot["mode_runs"] + tot["manual_runs"])
    chk.set("integrate_calls_compared", tot["runs"])
    chk.set("refusals_confirmed", tot["refused"])
    chk.set("continuations_compared", tot["splits"])
    chk.set("jit_vmap_runs", tot["mode_runs"])
    chk.set("manual_stepping_runs", tot["manual_runs"])
    chk.set("items_retried_after_a_non_reproducible_exception", tot["retried"])
    chk.set("exhaustive", True)
    chk.set("evaluations", len(items))
    chk.set("distinct_nontrivial", sum(1 for i in items if i["cfg"]["L"] or i["cfg"]["tmax"] or i["phase"] == "split"))
    chk.set("rule", "all configurations (input length 1..4, t_max absent / shorter / equal / longer, second stimulus, voltage clamp, every "
                    "checkpoint layout with entries 1..3 and depth <= 2 [thorough: 3], every split point) of the integer probe model; the real "
                    "integrate must return TLC's integer matrix and returned state; distinct_nontrivial = configurations with a layout, "
                    "t_max or a split")
    for i in [x for x in items if x["cfg"]["L"]][:2] + [x for x in items if x["phase"] == "split"][:1]:
        chk.sample({"cfg": i["cfg"], "phase": i["phase"], "n1": i["n1"]})
    chk.assume("TLC", "exact-binary dt = 0.25 so that t_max // dt is the integer operator", "probe dynamics are integer exact",
               "jax's spsolve cannot be vmapped: that combination is refused by JAX and not compared")
    return chk.finish()


if __name__ == "__main__":
    C.main_wrapper(lambda: main(sys.argv[1]))

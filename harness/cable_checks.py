"""C01 / C02: TLC over Z_P (Field/Morph/Cable/Hines/Csc) + evaluator cross-check + replay on the real code.

usage: python -m harness.cable_checks C01|C02
"""
import itertools
import json
import os
import sys
import time
from concurrent.futures import ThreadPoolExecutor

from harness import common as C
from harness import evaluator as ev

P = 46337
NCMAX = 3

INV_C01 = ["HinesSolvesCable", "HinesConsumesAllCouplings", "CrankNicolsonIsTrapezoidal", "PerAreaIsSI",
           "CscDenotesCable", "HinesSolvesExtendedSystem"]
INV_C02 = ["Conservation", "UniformStaysUniform", "RowSumIdentity"]


# ----------------------------------------------------------------------------------------
def forests(nb_max, nc_max, trees_only=False):
    """Independent enumeration of Morph.tla's ForestVecs x compartment counts (vacuity guard)."""
    out = []
    for n in range(1, nb_max + 1):
        def rec(p):
            b = len(p) + 1
            if b > n:
                yield list(p)
                return
            last_root = max(i + 1 for i, x in enumerate(p) if x == 0)
            opts = list(range(last_root, b))
            if not trees_only:
                opts = [0] + opts
            for q in opts:
                yield from rec(p + [q])
        for p in rec([0]):
            for nc in itertools.product(range(1, nc_max + 1), repeat=n):
                out.append((tuple(p), tuple(nc)))
    return out


def run_tlc_enum(name, nb, nc, invariants, seed_, trees_only, as_coded=False, workers=8, timeout=1700, metamorphic=False):
    cfg = os.path.join(C.WORK, "cfg_%s.cfg" % name)
    os.makedirs(C.WORK, exist_ok=True)
    C.write_cfg(cfg, constants={"P": P, "SEED": seed_, "NB": nb, "NC": nc, "AS_CODED_LAST": as_coded,
                                "TREES_ONLY": trees_only, "EMIT": True, "METAMORPHIC": bool(metamorphic)},
                invariants=invariants, constraints=["Emit"])
    res = C.run_tlc("MC_Hines", cfg, name, workers=workers, timeout=timeout, coverage=True)
    cfgs = []
    for line in res.printed("CFG"):
        js = line[line.index('"{') + 1: line.rindex('}"') + 1].replace('\\"', '"')
        cfgs.append(json.loads(js))
    return res, cfgs


def crosscheck_evaluator(cfgs, nc):
    """The Python evaluator, instantiated with Z_P, must reproduce TLC's solution vectors exactly."""
    n_ok = 0
    for c in cfgs:
        if c["pc"] != "Done" or not c["ok"]:
            continue
        F = ev.Zp(P, c["seed"])
        m = ev.Morph(c["parents"], c["ncomp"])
        par = ev.seeded_params(F, m, nc)
        if par["dt"] != c["dt"]:
            raise C.MachineryError("evaluator Rnd differs from TLC (dt %s vs %s)" % (par["dt"], c["dt"]))
        try:
            x = ev.bwd_solution(F, m, par, par["dt"], par["v0"])
        except ZeroDivisionError:
            continue
        if list(x) != list(c["sol"]):
            raise C.MachineryError("evaluator != TLC mod p on %s %s seed %s: %s vs %s"
                                   % (c["parents"], c["ncomp"], c["seed"], x, c["sol"]))
        if m.accepts_padded() != c["accepts"]:
            raise C.MachineryError("evaluator Accepts differs from TLC on %s %s" % (c["parents"], c["ncomp"]))
        n_ok += 1
    return n_ok


def selfcheck_numpy(cfgs, nc, k=25):
    """The vectorised float oracle must agree with the generic evaluator instantiated at float64."""
    import numpy as np
    rng = np.random.default_rng(1)
    F = ev.Fl()
    for c in cfgs[:: max(1, len(cfgs) // k)]:
        m = ev.Morph(c["parents"], c["ncomp"])
        n = m.ncomps
        par = {k_: list(rng.uniform(0.5, 3.0, n)) for k_ in ["r", "l", "ra", "cm", "v0", "gm", "em", "I"]}
        A1, b1 = ev.bwd_system(F, m, par, 0.7, par["v0"])
        A2, b2 = ev.np_bwd_system(m, par, 0.7, par["v0"])
        if not (np.allclose(np.array(A1, dtype=float), A2, rtol=1e-12, atol=0) and np.allclose(b1, b2, rtol=1e-12)):
            raise C.MachineryError("numpy oracle differs from the generic evaluator on %s" % (c,))


def shape_class(parents, ncomp):
    """Input-describing features used in violation signatures (never the observed wrong value)."""
    m = ev.Morph(parents, ncomp)
    ncells = len(set(m.cell_of))
    # a parent branch shorter than the maximal compartment count of its level (inside its cell)
    short_parent = False
    for p in m.parent_branches:
        mx = max(m.ncomp[b] for b in range(m.nb) if m.cell_of[b] == m.cell_of[p] and m.level[b] == m.level[p])
        short_parent |= m.ncomp[p] < mx
    return {"ncells": ncells, "branched": m.nbp > 0, "equal_ncomp": len(set(ncomp)) == 1,
            "short_parent": short_parent, "padded_accepts": m.accepts_padded()}


def tlc_phase(chk, name, nb, nc, invariants, seeds, trees_only, extra_runs=()):
    """Run TLC for every seed (in parallel), cross-check the evaluator; returns the configuration list."""
    t0 = time.time()
    jobs = [(name + "_s%d" % s, nb, nc, invariants, s, trees_only) for s in seeds] + list(extra_runs)
    # workers proportional to the size of each run (the NB = 4 space is ~9x the NB = 3 space)
    weight = [9 ** (j[1] - 3) * (2 if j[2] > 3 else 1) for j in jobs]
    wk = [max(2, round(C.NCPU * w / sum(weight))) for w in weight]
    with ThreadPoolExecutor(len(jobs)) as ex:
        outs = list(ex.map(lambda a: run_tlc_enum(*a[0], workers=a[1]), zip(jobs, wk)))
    states = trans = 0
    by_cfg = {}
    for (res, cfgs), job in zip(outs, jobs):
        if res.violated:
            # a violated invariant of the design model: the specification itself is wrong for this code base
            chk.violation({"tlc_invariant": res.violated, "run": job[0]}, res.out[-3000:])
        elif not res.ok:
            raise C.MachineryError("TLC did not complete on %s:\n%s" % (job[0], res.out[-2000:]))
        states += res.distinct
        trans += res.generated
        cov = res.coverage()
        if not cov:
            raise C.MachineryError("no coverage statistics in the output of %s" % job[0])
        for act in ["ChooseConfig", "SAssemble", "STriangLevel", "SElimChildrenLower", "SElimParentsUpper", "STriangRoot",
                    "SBacksubRoot", "SElimParentsLower", "SElimChildrenUpper", "SBacksubLevel"]:
            if cov.get(act, (0, 0))[1] == 0:
                raise C.MachineryError("vacuity: action %s never taken in %s" % (act, job[0]))
        crosscheck_evaluator(cfgs, job[2])
        for c in cfgs:
            key = (tuple(c["parents"]), tuple(c["ncomp"]))
            e = by_cfg.setdefault(key, {"parents": c["parents"], "ncomp": c["ncomp"], "nondeg": 0, "pc": c["pc"]})
            e["nondeg"] += 1 if c["ok"] else 0
    return by_cfg, states, trans, time.time() - t0


def main_c01():
    chk = C.Check("C01", "model_checking")
    quick = C.tier() == "quick"
    sd = C.seed()
    nb, nc = (4, 3)
    seeds = [1 + 2 * sd] if quick else [1 + 3 * sd, 2 + 3 * sd, 3 + 3 * sd]
    extra = [("c01_nb3", 3, 3, INV_C01, 2 + 2 * sd, False)]       # second seed on the smaller space
    if not quick:
        # deeper bounds: all single cells with <= 5 branches, and long branches (NC = 5)
        extra = [("c01_nb5", 5, 3, ["HinesSolvesCable", "HinesConsumesAllCouplings", "CscDenotesCable"], 1 + 3 * sd, True),
                 ("c01_nc5", 3, 5, INV_C01, 1 + 3 * sd, False)]
    by_cfg, states, trans, t_tlc = tlc_phase(chk, "c01", nb, nc, INV_C01, seeds, False, extra)
    # vacuity guards: TLC enumerated exactly the forests an independent enumeration produces,
    # and every configuration was decided (non-degenerate modulo P) under at least one seed
    want = set(forests(nb, nc))
    if not quick:
        want |= set(forests(5, 3, True)) | set(forests(3, 5))
    if set(by_cfg) != want:
        raise C.MachineryError("TLC enumerated %d configurations, expected %d" % (len(by_cfg), len(want)))
    undecided = [k for k, v in by_cfg.items() if v["nondeg"] == 0]
    if len(undecided) > 0.01 * len(by_cfg) + 1:
        raise C.MachineryError("%d configurations degenerate under every seed" % len(undecided))
    cfgs = [dict(id=i, parents=list(k[0]), ncomp=list(k[1])) for i, k in enumerate(sorted(by_cfg))]
    selfcheck_numpy(cfgs, nc)

    # ------------------ replay on the real code ------------------
    opts = {"mode": "c01", "seed": sd, "bwd_dts": [0.025, 1000.0] if quick else [0.025, 1.0, 1000.0],
            "cn_dts": [1.0] if quick else [0.025, 1.0, 1000.0], "fwd_dts": [0.025],
            "fwd_backends": ["jaxley.thomas"] if quick else ["jaxley.thomas", "jaxley.stone"],
            "integrate_every": 10, "clear_every": 10}
    if quick:
        # quick: every second configuration (the other half with the next seed), one dt per scheme,
        # rotating through the dt regimes; thorough replays everything with every dt
        import random
        ones = [c for c in cfgs if max(c["ncomp"]) == 1]
        rest = [c for c in cfgs if max(c["ncomp"]) > 1]
        cfgs = sorted(ones + random.Random(sd).sample(rest, len(rest) // 2), key=lambda c: c["id"])
        for j, c in enumerate(cfgs):           # rotate by position in the selection (ids are aligned with the 3^k blocks)
            c["bwd_dts"] = [[0.025, 1.0, 1000.0][(j + sd) % 3]]
            c["cn_dts"] = [[1.0, 1000.0, 0.025][(j + sd) % 3]]
    jobs = [{"opts": opts, "configs": ch} for ch in C.chunks(cfgs, C.NCPU * 4)]
    outs = C.run_workers("replay_cable", jobs)
    n_steps = n_ref = n_int = 0
    refused_by = {}
    worst = {"res": 0.0, "agree": 0.0}
    for o in outs:
        for rec in o["results"]:
            sc = shape_class(rec["parents"], rec["ncomp"])
            for s in rec["steps"]:
                base = {"solver": s["solver"], "voltage_solver": s["vs"], **sc}
                if "refused" in s:
                    n_ref += 1
                    refused_by[s["solver"] + "/" + s["vs"]] = refused_by.get(s["solver"] + "/" + s["vs"], 0) + 1
                    continue
                n_steps += 1
                if s.get("via") == "integrate":
                    n_int += 1
                    if s["col0"] > 0:
                        chk.violation({**base, "via": "integrate", "what": "column 0 is not the initial voltage"},
                                      {"config": rec, "step": s})
                if "agree" in s:
                    tol = 1e3 * s["cond"] * 2.3e-16 * s["scale"] + 1e-10
                    worst["agree"] = max(worst["agree"], s["agree"] / tol)
                    if s["agree"] > tol:
                        chk.violation({**base, "what": "backends disagree"}, {"config": rec, "step": s, "tol": tol})
                    continue
                worst["res"] = max(worst["res"], s["res"])
                if not (s["res"] <= 1e-9):
                    chk.violation({**base, "what": "step is not the solution of the scheme"},
                                  {"config": {k: rec[k] for k in ("id", "parents", "ncomp")}, "step": s,
                                   "param_seed": [sd, rec["id"]],
                                   "oracle": "row-wise relative residual of the Cable.tla system > 1e-9"})
    nontriv = sum(1 for c in cfgs if len(c["parents"]) > 1 and len(set(c["ncomp"])) > 1)
    chk.set("states", states)
    chk.set("transitions", trans)
    chk.set("traces_validated_against_impl", n_steps)
    chk.set("exhaustive", True)
    chk.set("configurations", len(cfgs))
    chk.set("distinct_nontrivial", nontriv)
    chk.set("evaluations", n_steps)
    chk.set("refused_steps", n_ref)
    chk.set("refused_by", refused_by)
    chk.set("integrate_path_steps", n_int)
    chk.set("worst_relative_residual", worst["res"])
    chk.set("worst_agreement_over_tolerance", worst["agree"])
    chk.set("tlc_wall_s", round(t_tlc, 1))
    chk.set("rule", "TLC enumerates every forest with <= %d branches x every compartment-count vector in 1..%d; "
                    "non-trivial = >= 2 branches with at least two different compartment counts; every configuration "
                    "is replayed on the real code (3 solvers x 3 backends, several dt)" % (nb, nc))
    for c in cfgs[:3] + cfgs[-2:]:
        chk.sample({"parents": c["parents"], "ncomp": c["ncomp"]})
    chk.assume("TLC; Schwartz-Zippel for identities over Z_%d (2+ seeds)" % P,
               "numpy/LAPACK for evaluating the oracle residual", "float64; trees beyond the bound not covered",
               "a backend that raises is 'refused' (allowed by the property), never compared")
    return chk.finish()


def main_c02():
    chk = C.Check("C02", "model_checking")
    quick = C.tier() == "quick"
    sd = C.seed()
    nb, nc = (4, 3) if quick else (4, 3)
    seeds = [11 + 2 * sd] if quick else [11 + 3 * sd, 12 + 3 * sd]
    extra = [("c02_recip", 3, 3, ["Reciprocity"], 11 + 2 * sd, False)]
    if not quick:
        extra = [("c02_recip4", 4, 3, ["Reciprocity"], 11 + 3 * sd, True),
                 ("c02_recip3", 3, 3, ["Reciprocity"], 12 + 3 * sd, False),
                 ("c02_nb5", 5, 3, ["Conservation", "UniformStaysUniform"], 11 + 3 * sd, True)]
    by_cfg, states, trans, t_tlc = tlc_phase(chk, "c02", nb, nc, INV_C02, seeds, False, extra)
    want = set(forests(nb, nc)) | (set(forests(5, 3, True)) if not quick else set())
    if set(by_cfg) != want:
        raise C.MachineryError("TLC enumerated %d configurations, expected %d" % (len(by_cfg), len(want)))
    base_cfgs = sorted(k for k in by_cfg if len(k[0]) <= nb)
    cfgs = [dict(id=i, parents=list(k[0]), ncomp=list(k[1])) for i, k in enumerate(base_cfgs)]
    if quick:
        # replay: all trees and networks with <= 4 branches where at least one branch has >= 2 compartments
        # or a branch point exists (single-compartment point cells carry no axial coupling)
        cfgs = [c for c in cfgs if max(c["ncomp"]) > 1 or any(p != 0 for p in c["parents"])]
    opts = {"mode": "c02", "seed": sd, "dts": [1e-3, 0.025, 1.0, 1e3, 1e9],
            "recip_dts": [0.025, 1e3] if quick else [1e-3, 0.025, 1.0, 1e3, 1e9],
            "recip_backends": ["jaxley.thomas", "jax.sparse"] if quick else ["jaxley.stone", "jaxley.thomas", "jax.sparse"],
            "backends": ["jaxley.stone", "jaxley.thomas", "jax.sparse"], "clear_every": 5}
    if quick:
        # a seeded random third of the space (a stride would alias with the 3^k blocks of compartment counts per tree), plus
        # every configuration whose branches all have one compartment (no within-branch edge at all); thorough replays everything
        import random
        ones = [c for c in cfgs if max(c["ncomp"]) == 1]
        rest = [c for c in cfgs if max(c["ncomp"]) > 1]
        cfgs = sorted(ones + random.Random(sd).sample(rest, len(rest) // 3), key=lambda c: c["id"])
    jobs = [{"opts": opts, "configs": ch} for ch in C.chunks(cfgs, C.NCPU * 4)]
    outs = C.run_workers("replay_cable", jobs)
    n_eval = n_ref = pairs = 0
    worst = {"cons": 0.0, "overshoot": 0.0, "recip": 0.0, "unif": 0.0, "resp_neg": 0.0, "bound_cm": 0.0}
    for o in outs:
        for rec in o["results"]:
            sc = shape_class(rec["parents"], rec["ncomp"])
            cfgd = {k: rec[k] for k in ("id", "parents", "ncomp")}
            for s in rec["c02"]:
                base = {"voltage_solver": s["vs"], **sc}
                if "refused" in s or "unif_refused" in s:
                    n_ref += 1
                    continue
                n_eval += 1
                ctol = 1e2 * s.get("cond", 1.0) * 2.3e-16          # forward-error bound of a stable solve
                for key, tol, what in (("cons", 1e-10, "charge is not conserved"),
                                       ("overshoot", 1e-10 + ctol, "voltage leaves [min(v,E), max(v,E)] (maximum principle)"),
                                       ("recip", 1e-10 + ctol, "response is not reciprocal"),
                                       ("unif", 1e-10 + ctol, "uniform model does not stay uniform"),
                                       ("bound_cm", 1e-12, "capacitances bound through data_set do not reach the axial coupling")):
                    if key in s:
                        worst[key] = max(worst[key], s[key] / tol)
                        if not (s[key] <= tol):
                            chk.violation({**base, "what": what}, {"config": cfgd, "measure": s, "tol": tol,
                                                                    "param_seed": [sd, rec["id"]]})
                if "recip" in s:
                    pairs += s["pairs"]
                    worst["resp_neg"] = min(worst["resp_neg"], s["resp_neg"])
                    if s["resp_neg"] < -1e-9:
                        chk.violation({**base, "what": "a depolarising current lowers a voltage (M-matrix sign structure)"},
                                      {"config": cfgd, "measure": s})
    chk.set("states", states)
    chk.set("transitions", trans)
    chk.set("traces_validated_against_impl", n_eval)
    chk.set("exhaustive", True)
    chk.set("configurations_replayed", len(cfgs))
    chk.set("evaluations", n_eval)
    chk.set("distinct_nontrivial", sum(1 for c in cfgs if len(c["parents"]) > 1 and len(set(c["ncomp"])) > 1))
    chk.set("reciprocity_pairs", pairs)
    chk.set("refused", n_ref)
    chk.set("worst", worst)
    chk.set("tlc_wall_s", round(t_tlc, 1))
    chk.set("rule", "identities Conservation / Reciprocity / UniformStaysUniform / RowSumIdentity checked by TLC over Z_p on "
                    "every forest <= %d branches x counts 1..%d; replayed on the real code (jitted public step function, "
                    "3 backends, dt in 1e-3..1e9, reciprocity for all pairs)" % (nb, nc))
    for c in cfgs[:3] + cfgs[-2:]:
        chk.sample({"parents": c["parents"], "ncomp": c["ncomp"]})
    chk.assume("TLC; Schwartz-Zippel over Z_%d" % P, "M-matrix theorem: RowSumIdentity + subtraction-free off-diagonals "
               "imply the discrete maximum principle", "float64")
    return chk.finish()


if __name__ == "__main__":
    which = sys.argv[1]
    C.main_wrapper(main_c01 if which == "C01" else main_c02)

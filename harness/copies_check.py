"""C18: modules survive pickling and deep copies unchanged and independent (Copies.tla, two instances).

usage: python -m harness.copies_check            (driver)
       python -m harness.copies_check <job> <out>   (worker)
"""
import copy
import json
import os
import pickle
import re
import sys
from collections import Counter

from harness import common as C


def do(ctx, o):
    """Apply one operation of Copies.tla's alphabet through the public API (see replay_module.apply)."""
    from harness.jaxsetup import jnp
    from harness import probes
    from harness.replay_module import stim_amp, clamp_val
    T = ctx.T
    op, a, b, x = o["op"], o["a"], o["b"], o["x"]
    if op == "insert":
        ctx.view(b).insert(probes.CHAN[a]())
    elif op == "delete":
        ctx.view(b).delete_channel(probes.CHAN[a]())
    elif op == "set":
        ctx.view(b).set(a, float(x))
    elif op == "train":
        ctx.view(b).make_trainable(a, float(x), verbose=False)
    elif op == "group":
        ctx.view(b).add_to_group(a)
    elif op == "record":
        ctx.view(b).record(a, verbose=False)
    elif op == "stim":
        j = ctx.nin + 1
        ctx.view(b).stimulate(jnp.asarray([float(stim_amp(j, k)) for k in range(1, T + 1)]), verbose=False)
        ctx.nin = j
    elif op == "clamp":
        j = ctx.nin + 1
        ctx.view(b).clamp(a, jnp.asarray([float(clamp_val(a, j, k)) for k in range(1, T + 1)]), verbose=False)
        ctx.nin = j
    elif op == "delrec":
        ctx.view(b).delete_recordings()
    elif op == "deltrain":
        ctx.view(b).delete_trainables()
    elif op == "delstim":
        ctx.view(b).delete_stimuli()
    else:
        raise ValueError(op)


def worker():
    from harness.jaxsetup import jax, jnp, np, jx
    from harness import replay_module as rm
    from harness import probes
    from harness.probes import DT, UNIT, tok
    job = json.load(open(sys.argv[1]))
    model = job["model"]
    res = {"histories": 0, "grads": 0, "sims": 0, "scenarios": 0, "mismatch": []}

    def norm(st):
        N = 6
        fl = lambda f: [f[str(i)] if isinstance(f, dict) else f[i] for i in range(N)]
        return {
            "has": [sorted(x) for x in fl(st["has"])],
            "col": {k: fl(st["col"][k]) for k in rm.KEYS},
            "colset": sorted(st["colset"]), "reg": list(st["reg"]), "curs": list(st["curs"]),
            "groups": {g: sorted(v) for g, v in st["groups"].items() if len(v) > 0},
            "recs": [[p[0], p[1]] for p in st["recs"]],
            "ext": {k: [[p[0], p[1]] for p in v] for k, v in st["ext"].items() if len(v) > 0},
            "nin": st["nin"],
            "trains": [{"key": t["key"], "groups": sorted(sorted(g) for g in t["groups"]), "val": t["val"]} for t in st["trains"]],
            "eff": {k: fl(st["eff"][k]) for k in rm.KEYS},
        }

    def simulate(ctx):
        cell = ctx.cell
        kw = {} if cell.externals else {"t_max": (ctx.T - 1) * DT}
        out = np.asarray(jx.integrate(cell, params=cell.get_parameters(), delta_t=DT, voltage_solver="jax.sparse", **kw))
        states = list(cell.recordings["state"])
        return [[tok(x / (-UNIT) if s == "i_A" else x) for x in row] for row, s in zip(out, states)], out

    for st in job["states"]:
        hist = st["hist"]
        kind = [h["o"]["op"] for h in hist if h["o"]["op"] in ("pickle", "deepcopy")][0]
        sig = {"copy": kind, "post_ops": ",".join(h["o"]["op"] for h in hist if h["side"] != 0)}
        try:
            with jax.disable_jit():
                a = rm.Ctx(model)
                b = None
                for h in hist:
                    o = h["o"]
                    if o["op"] in ("pickle", "deepcopy"):
                        twin = pickle.loads(pickle.dumps(a.cell)) if o["op"] == "pickle" else copy.deepcopy(a.cell)
                        b = rm.Ctx(model, cell=twin, nin=a.nin)
                        pa, pb = rm.project(a), rm.project(b)
                        if pa != pb:
                            res["mismatch"].append({**sig, "kind": "copy_differs", "hist": hist,
                                                    "differs": [k for k in pa if pa[k] != pb.get(k)]})
                        if st["k"] % job["grad_every"] == 0 and len(a.cell.recordings) and a.cell.trainable_params:
                            ok_radius = all(r in (1, 2) for r in pa["eff"]["radius"]) if isinstance(pa.get("eff"), dict) else False
                            if ok_radius:
                                with jax.disable_jit(False):
                                    def loss(p, cell):
                                        kw = {} if cell.externals else {"t_max": (a.T - 1) * DT}
                                        return jnp.sum(jx.integrate(cell, params=p, delta_t=DT, voltage_solver="jaxley.thomas", **kw) ** 2)
                                    ga = jax.grad(loss)(a.cell.get_parameters(), a.cell)
                                    gb = jax.grad(loss)(b.cell.get_parameters(), b.cell)
                                fa = [np.asarray(v) for d in ga for v in d.values()]
                                fb = [np.asarray(v) for d in gb for v in d.values()]
                                res["grads"] += 1
                                if len(fa) != len(fb) or not all(np.array_equal(x, y, equal_nan=True) for x, y in zip(fa, fb)):
                                    res["mismatch"].append({**sig, "kind": "gradient_differs", "hist": hist})
                        continue
                    if h["side"] == 0:
                        do(a, o)
                    elif h["side"] == 1:
                        do(a, o)
                    else:
                        do(b, o)
                pa, pb = rm.project(a), rm.project(b)
                wa, wb = norm(st["a"]), norm(st["b"])
                for w_, p_ in ((wa, pa), (wb, pb)):
                    # a trainable whose column was dropped by delete_channel is dangling (C19's business): its effective
                    # value is not compared here
                    if any(t["key"] not in w_["colset"] for t in w_["trains"]):
                        w_.pop("eff", None)
                bad_a, bad_b = rm.compare(pa, wa), rm.compare(pb, wb)
                if bad_a or bad_b:
                    res["mismatch"].append({**sig, "kind": "tables_after_editing", "hist": hist, "original_differs": bad_a, "copy_differs": bad_b})
                for ctx, want, side in ((a, st["a"]["obs"], "original"), (b, st["b"]["obs"], "copy")):
                    if want:
                        got, _ = simulate(ctx)
                        res["sims"] += 1
                        if got != [list(r) for r in want]:
                            res["mismatch"].append({**sig, "kind": "simulation", "side": side, "hist": hist, "got": got, "want": want})
        except Exception as e:
            # F20 (known finding of C19, see known_findings.json): a recording of a state of a channel that was deleted afterwards
            # makes integrate raise KeyError - on either module, copied or not
            dangling = any(str(r[1]) in ("A_s", "i_A") and "A" not in side["reg"] for side in (st["a"], st["b"]) for r in side["recs"])
            res["mismatch"].append({**sig, "kind": "raised", "hist": hist, "err": type(e).__name__ + ": " + str(e)[:200],
                                    "records_state_of_deleted_channel": bool(dangling and "KeyError" in type(e).__name__)})
        res["histories"] += 1

    # modules beyond the probe cell: SWC cell (radius functions), network with synapses, trainables, groups, clamps
    for sc in job.get("scenarios", []):
        for kind in ("pickle", "deepcopy"):
            try:
                if sc.startswith("swc"):
                    fname = "morph_minimal.swc" if sc == "swc" else "morph_250_single_point_soma.swc"
                    m = jx.read_swc(os.path.join(os.environ.get("VERIF_REPO", "/repo"), "tests/swc_files", fname), ncomp=2)
                    from jaxley.channels import HH, Leak
                    hh = HH()
                    hh.channel_params["HH_gNa"] = 0.2          # a mechanism object whose defaults were customised before insertion
                    m.insert(hh)
                    m.branch(0).insert(Leak().change_name("pas"))
                    m.branch(1).add_to_group("g")
                    m.branch(0).comp(0).stimulate(jnp.asarray([0.1, 0.2, 0.3]), verbose=False)
                    m.branch(2).make_trainable("radius", verbose=False)
                else:
                    m = probes.build_net([[2], [2], [2]], [2, 4, 6, 8, 10, 12])
                    from jaxley.connect import connect
                    connect(m.select(nodes=[0]), m.select(nodes=[3]), probes.P())
                    connect(m.select(nodes=[5]), m.select(nodes=[1]), probes.Q())
                    connect(m.select(nodes=[2]), m.select(nodes=[4]), probes.P())
                    m.P.edge(1).set("P_w", 2.0)
                    m.cell(1).add_to_group("g")
                    m.Q.make_trainable("Q_w", verbose=False)
                    m.P.edge(0).clamp("P_s", jnp.asarray([3.0, 4.0, 5.0]), verbose=False)
                    m.Q.edge(0).record("Q_s", verbose=False)
                m.record("v", verbose=False)
                twin = pickle.loads(pickle.dumps(m)) if kind == "pickle" else copy.deepcopy(m)
                res["scenarios"] += 1

                def digest(x):
                    return (x.nodes.to_json(orient="split"), x.edges.to_json(orient="split") if len(x.edges) else "",
                            {g: sorted(int(i) for i in v) for g, v in x.groups.items()}, x.recordings.to_numpy().tolist(),
                            {k: np.asarray(v).tolist() for k, v in x.externals.items()},
                            {k: np.asarray(v).tolist() for k, v in x.external_inds.items()},
                            [{k: np.asarray(v).tolist() for k, v in d.items()} for d in x.trainable_params],
                            [np.asarray(i).tolist() for i in x.indices_set_by_trainables],
                            [(c_._name, c_.current_name, sorted((k, float(v)) for k, v in c_.channel_params.items()),
                              sorted((k, float(v)) for k, v in c_.channel_states.items())) for c_ in x.channels],
                            [(s_._name, sorted((k, float(v)) for k, v in s_.synapse_params.items())) for s_ in (x.synapses or []) if s_ is not None],
                            list(x.membrane_current_names),
                            np.asarray(x.ncomp_per_branch).tolist(), np.asarray(x.comb_parents).tolist(),
                            np.asarray(x.cumsum_ncomp).tolist(), repr([np.asarray(a).tolist() for a in x.xyzr][:3]))
                d0 = digest(m)
                frozen0 = pickle.dumps(m)
                if digest(twin) != d0:
                    res["mismatch"].append({"kind": "copy_differs", "copy": kind, "scenario": sc})
                kw = {"delta_t": 0.025} if sc.startswith("swc") else {"delta_t": DT}
                ra = np.asarray(jx.integrate(m, params=m.get_parameters(), **kw))
                rb = np.asarray(jx.integrate(twin, params=twin.get_parameters(), **kw))
                if not np.array_equal(ra, rb, equal_nan=True):
                    res["mismatch"].append({"kind": "simulation", "copy": kind, "scenario": sc})

                def loss(p, mod):
                    return jnp.sum(jx.integrate(mod, params=p, **kw) ** 2)
                ga, gb = jax.grad(loss)(m.get_parameters(), m), jax.grad(loss)(twin.get_parameters(), twin)
                if not all(np.array_equal(np.asarray(x), np.asarray(y), equal_nan=True)
                           for da, db in zip(ga, gb) for x, y in zip(da.values(), db.values())):
                    res["mismatch"].append({"kind": "gradient_differs", "copy": kind, "scenario": sc})
                # independence: edit the copy, the original keeps its digest (and vice versa)
                twin.set("radius", 3.3)
                twin.delete_recordings()
                if sc.startswith("swc"):
                    twin.delete_stimuli()
                    twin.delete_trainables()
                    twin.branch(1).set_ncomp(3)
                else:
                    connect(twin.select(nodes=[1]), twin.select(nodes=[2]), probes.Q())
                    twin.delete_clamps("P_s")
                if digest(m) != d0:
                    res["mismatch"].append({"kind": "original_changed_by_editing_the_copy", "copy": kind, "scenario": sc})
                # ... and still simulates exactly as before, with every voltage solver
                for vs in ("jaxley.stone", "jax.sparse"):
                    r0 = np.asarray(jx.integrate(pickle.loads(frozen0), params=m.get_parameters(), voltage_solver=vs, **kw))
                    r1 = np.asarray(jx.integrate(m, params=m.get_parameters(), voltage_solver=vs, **kw))
                    if not np.array_equal(r0, r1, equal_nan=True):
                        res["mismatch"].append({"kind": "original_simulates_differently_after_editing_the_copy", "copy": kind,
                                                "scenario": sc, "voltage_solver": vs})
                # and the other way round: editing the original leaves the (second) copy alone
                twin2 = pickle.loads(pickle.dumps(m)) if kind == "pickle" else copy.deepcopy(m)
                d2 = digest(twin2)
                m.set("length", 7.7)
                if sc.startswith("swc"):
                    m.delete_stimuli(); m.delete_trainables(); m.delete_recordings()
                    m.branch(2).set_ncomp(4)
                else:
                    m.delete_recordings()
                if digest(twin2) != d2:
                    res["mismatch"].append({"kind": "copy_changed_by_editing_the_original", "copy": kind, "scenario": sc})
            except Exception as e:
                res["mismatch"].append({"kind": "raised", "copy": kind, "scenario": sc, "err": type(e).__name__ + ": " + str(e)[:200]})
    json.dump(res, open(sys.argv[2], "w"), default=str)


def main():
    chk = C.Check("C18", "model_checking")
    quick = C.tier() == "quick"
    cfg = open(os.path.join(C.SPEC, "MC_Copies.cfg")).read()
    cfg = re.sub(r"SEEDK = \d+", "SEEDK = %d" % C.seed(), cfg)
    if not quick:
        cfg = cfg.replace("MaxPost = 1", "MaxPost = 2").replace("SAMPLE = 150", "SAMPLE = 4000")
    os.makedirs(C.WORK, exist_ok=True)
    p = os.path.join(C.WORK, "copies.cfg")
    open(p, "w").write(cfg)
    res = C.run_tlc("MC_Copies", p, "copies", timeout=2400)
    if res.violated:
        chk.violation({"tlc_invariant": res.violated}, res.out[-2500:])
        return chk.finish()
    if not res.ok:
        raise C.MachineryError("Copies.tla failed:\n" + res.out[-2000:])
    sts = []
    for k, line in enumerate(res.printed("COPYSTATE")):
        o = json.loads(line[line.index('"{') + 1: line.rindex('}"') + 1].replace('\\"', '"'))
        o["k"] = k
        sts.append(o)
    if len(sts) < 200:
        raise C.MachineryError("only %d copy histories sampled" % len(sts))
    kinds = Counter(h["o"]["op"] for s in sts for h in s["hist"])
    for need in ("pickle", "deepcopy", "insert", "train", "record", "stim"):
        if kinds[need] == 0:
            raise C.MachineryError("vacuity: no sampled history contains %s" % need)
    model = {"K": [2, 4, 6, 8, 10, 12], "T": 2,
             "views": {k: {"rows": r} for k, r in {"all": [0, 1, 2, 3, 4, 5], "b0": [0, 1], "b01": [0, 1, 2], "b12": [2, 3, 4, 5],
                                                  "c0": [0, 2, 3], "mid": [1, 2, 3], "last": [5]}.items()}}
    jobs = [{"model": model, "states": ch, "grad_every": 1 if not quick else 2, "scenarios": ["swc", "net"] if i == 0 else (["swc_single_point_soma"] if i == 1 else [])}
            for i, ch in enumerate(C.chunks(sts, C.NCPU * 2))]
    outs = C.run_workers("copies_check", jobs, timeout=3000)
    tot = Counter()
    for o in outs:
        for k in ("histories", "grads", "sims", "scenarios"):
            tot[k] += o[k]
        for m in o["mismatch"]:
            chk.violation({k: m[k] for k in ("kind", "copy", "scenario", "side", "records_state_of_deleted_channel") if k in m}, m)
    chk.set("states", res.distinct)
    chk.set("transitions", res.generated)
    chk.set("traces_validated_against_impl", tot["histories"] + tot["scenarios"])
    chk.set("histories_replayed", tot["histories"])
    chk.set("gradient_comparisons", tot["grads"])
    chk.set("simulation_comparisons", tot["sims"])
    chk.set("swc_and_network_scenarios", tot["scenarios"])
    chk.set("exhaustive", True)
    chk.set("evaluations", tot["histories"] + tot["scenarios"])
    chk.set("distinct_nontrivial", sum(1 for s in sts if any(h["side"] != 0 for h in s["hist"])))
    chk.set("rule", "two instances of the module specification: <= 2 shared editing calls, Copy(pickle | deepcopy), then <= 1 [thorough 2] calls "
                    "on the original or on the copy; CopyIsEqual, EqualObs and Independence checked by TLC on all histories; a deterministic "
                    "hash sample is replayed: both real modules must project to both abstract states, simulate to TLC's integers and give "
                    "bit-identical gradients at the copy point; plus an SWC cell and a synaptic network (tables, simulation, gradient, "
                    "independence); non-trivial = histories that diverge after the copy")
    for s in sts[:2]:
        chk.sample({"hist": [[h["side"], h["o"]["op"], h["o"]["a"], h["o"]["b"]] for h in s["hist"]]})
    chk.assume("TLC")
    return chk.finish()


if __name__ == "__main__":
    if len(sys.argv) == 3:
        worker()
    else:
        C.main_wrapper(main)

"""C16: SWC import preserves the traced morphology (Swc.tla enumerates files, read_swc is replayed).

usage: python -m harness.swc_check            (driver)
       python -m harness.swc_check <job> <out>   (worker)
"""
import json
import os
import sys
from fractions import Fraction

from harness import common as C

TYPE_NAME = {0: "undefined", 1: "soma", 2: "axon", 3: "basal", 4: "apical", 5: "custom"}


def write_swc(f, path):
    n = f["n"]
    pos = {1: (0.0, 0.0, 0.0)}
    for i in range(2, n + 1):
        p = f["par"][i - 1]
        ax = i % 3
        q = list(pos[p])
        q[ax] += f["seg"][i - 1]
        pos[i] = tuple(q)
    with open(path, "w") as fh:
        fh.write("# generated from spec/Swc.tla\n")
        for i in range(1, n + 1):
            fh.write("%d %d %s %s %s %s %d\n" % (i, f["typ"][i - 1], pos[i][0], pos[i][1], pos[i][2], float(f["rad"][i - 1]),
                                                 f["par"][i - 1] if i > 1 else -1))


def radius_range(bps, x, total):
    """Admissible radius at path position x (0..total) for breakpoints [[cum, r], ...]: exact inside a piece of positive
    length; at a jump (pieces of length 0) any value between the radii that meet there."""
    if total == 0:
        rs = [b[1] for b in bps]
        return min(rs), max(rs)
    lo = hi = None
    eps = 1e-7 * total
    for (c0, r0), (c1, r1) in zip(bps[:-1], bps[1:]):
        if c1 > c0 and c0 - eps <= x <= c1 + eps:
            t = min(max((x - c0) / (c1 - c0), 0.0), 1.0)
            v = r0 + (r1 - r0) * t
            lo = v if lo is None else min(lo, v)
            hi = v if hi is None else max(hi, v)
        if c1 == c0 and abs(x - c0) <= eps:
            for v in (r0, r1):
                lo = v if lo is None else min(lo, v)
                hi = v if hi is None else max(hi, v)
    return lo, hi


def check_file(f, opts, tmp, mbl=None, secs=None):
    """Returns a list of mismatch dicts for one specification file (mbl: max_branch_len, secs: the sections expected with it)."""
    import numpy as np
    from jaxley.io.swc import swc_to_jaxley, read_swc
    path = os.path.join(tmp, "f.swc")
    write_swc(f, path)
    secs = f["secs"] if secs is None else secs
    sig = {"single_point_soma": f["typ"][1] != 1, "connector": f["connector"], "npoints": f["n"]}
    if mbl is not None:
        sig["max_branch_len"] = True
    try:
        parents, lens, rfns, types, coords = swc_to_jaxley(path, max_branch_len=mbl)
    except Exception as e:
        return [{"kind": "reader_raised", **sig, "err": type(e).__name__ + ": " + str(e)[:150]}]
    out = []
    conn = len(lens) == len(secs) + 1 and abs(lens[0] - 0.1) < 1e-12 and int(types[0]) == 5
    if conn != f["connector"]:
        return [{"kind": "connector", **sig, "got_branches": len(lens), "want_sections": len(secs)}]
    off = 1 if conn else 0
    L = [float(x) for x in lens[off:]]
    Ty = [int(t) for t in types[off:]]
    if len(L) != len(secs):
        return [{"kind": "branch_count", **sig, "got": len(L), "want": len(secs)}]
    bysec = {s["first"]: s for s in secs}
    got = sorted((round(l, 9), t) for l, t in zip(L, Ty))
    want = sorted((float(s["len"]), s["type"]) for s in secs)
    if sorted(g[0] for g in got) != sorted(w[0] for w in want):
        return [{"kind": "lengths", **sig, "got": got, "want": want}]
    if got != want:
        first_neurite_type_differs_from_last = f["typ"][1] != f["typ"][-1]
        return [{"kind": "types", **sig, "first_neurite_type_differs_from_last_point_type": first_neurite_type_differs_from_last,
                 "got": got, "want": want}]
    gotp = sorted(((round(float(lens[i]), 9), int(types[i])),
                   (round(float(lens[parents[i]]), 9), int(types[parents[i]])) if parents[i] >= off else (-1.0, -1))
                  for i in range(off, len(lens)))
    wantp = sorted(((float(s["len"]), s["type"]),
                    (float(bysec[s["parent"]]["len"]), bysec[s["parent"]]["type"]) if s["parent"] != 0 else (-1.0, -1)) for s in secs)
    if gotp != wantp:
        out.append({"kind": "parents", **sig, "got": gotp, "want": wantp})
    if conn and any(parents[i] != 0 for i in range(off, len(lens)) if parents[i] < off):
        out.append({"kind": "connector_parent", **sig})
    # radius profile at compartment centres, compared as a multiset keyed by (len, type)
    for ncomp in opts["ncomps"]:
        locs = (np.arange(ncomp) + 0.5) / ncomp
        gotr = sorted((round(float(lens[i]), 9), int(types[i]), tuple(round(float(x), 6) for x in np.atleast_1d(rfns[i](locs))))
                      for i in range(off, len(lens)))
        for s in secs:
            total = s["bps"][-1][0]
            rng = [radius_range(s["bps"], float(l) * total, total) for l in locs]
            cands = [g for g in gotr if g[0] == float(s["len"]) and g[1] == s["type"]]
            ok = any(all(lo is not None and lo - 1e-5 * (1 + abs(lo)) <= r <= hi + 1e-5 * (1 + abs(hi)) for r, (lo, hi) in zip(g[2], rng))
                     for g in cands)
            if not ok:
                out.append({"kind": "radius", **sig, "ncomp": ncomp, "section": s, "got": [g[2] for g in cands], "want_ranges": rng})
                break
    if not opts["build_cell"] or out:
        return out
    # the Cell itself: lengths, radii (min_radius), groups, connectivity independent of ncomp
    base = None
    for ncomp in opts["ncomps"]:
        for min_radius in opts["min_radius"]:
            try:
                cell = read_swc(path, ncomp=ncomp, min_radius=min_radius, max_branch_len=mbl)
            except Exception as e:
                return out + [{"kind": "read_swc_raised", **sig, "ncomp": ncomp, "err": type(e).__name__ + ": " + str(e)[:150]}]
            nodes = cell.nodes
            blen = nodes.groupby("global_branch_index")["length"].sum().to_numpy()
            if not np.allclose(blen, np.asarray(lens, dtype=float), rtol=1e-9):
                out.append({"kind": "cell_lengths", **sig, "ncomp": ncomp})
            par = [int(x) for x in np.asarray(cell.comb_parents)]
            if par != [int(p) for p in parents]:
                out.append({"kind": "cell_parents", **sig, "ncomp": ncomp})
            locs = (np.arange(ncomp) + 0.5) / ncomp
            wantrad = np.concatenate([np.atleast_1d(r(locs)) for r in rfns]).astype(float)
            if min_radius is not None:
                wantrad = np.maximum(wantrad, min_radius)
            if not np.allclose(nodes["radius"].to_numpy(), wantrad, rtol=1e-9):
                out.append({"kind": "cell_radius", **sig, "ncomp": ncomp, "min_radius": min_radius})
            # groups partition the branches by type
            gb = {}
            for g, rows in cell.groups.items():
                gb[g] = sorted(set(int(x) for x in nodes.loc[rows, "global_branch_index"]))
            want_groups = {}
            for bi, t in enumerate(types):
                want_groups.setdefault(TYPE_NAME.get(int(t), "custom%d" % int(t)), []).append(bi)
            if gb != want_groups:
                out.append({"kind": "groups", **sig, "got": gb, "want": want_groups})
            tot = (float(np.sum(blen)), par)
            if base is None:
                base = tot
            elif abs(base[0] - tot[0]) > 1e-9 * base[0] or base[1] != tot[1]:
                out.append({"kind": "depends_on_ncomp", **sig})
    return out


def worker():
    import tempfile
    from harness.jaxsetup import jx  # noqa: F401
    job = json.load(open(sys.argv[1]))
    res = {"files": 0, "cells": 0, "split_reads": 0, "split_capped": 0, "mismatch": []}
    tmp = tempfile.mkdtemp(dir=os.environ.get("VERIF_WORK"))
    for f, build in job["files"]:
        opts = dict(job["opts"], build_cell=build)
        mm = check_file(f, opts, tmp)
        res["files"] += 1
        res["cells"] += 1 if build else 0
        # the same file with max_branch_len, where the specification's splitting rule is defined and cuts something
        for sp in f.get("split", []):
            cut = any(s["parts"] > 1 for s in sp["secs"])
            capped = any(not s["reached"] for s in sp["secs"])
            if cut or capped:
                res["split_reads"] += 1 if cut else 0
                res["split_capped"] += 1 if capped else 0
                mm += check_file(f, dict(opts, build_cell=build and (res["split_reads"] + res["split_capped"]) % 4 == 0), tmp,
                                 mbl=float(sp["mbl"]), secs=sp["secs"])
        for m in mm:
            m["file"] = {k: f[k] for k in ("n", "par", "typ", "seg", "rad")}
            res["mismatch"].append(m)
    json.dump(res, open(sys.argv[2], "w"), default=str)


def main():
    import random
    chk = C.Check("C16", "model_checking")
    quick = C.tier() == "quick"
    rnd = random.Random(C.seed())
    gen = {"CHAIN_ONLY": False, "FREE_SEG": False}
    # swc_chain: unbranched files with EVERY combination of segment lengths (the splitting rule of max_branch_len lives there)
    runs = [("swc_a", {"MaxN": 6, "MaxSoma": 2, "NTypes": 2, "SEEDK": C.seed() % 5, **gen}),
            ("swc_b", {"MaxN": 5, "MaxSoma": 3, "NTypes": 3, "SEEDK": 1 + C.seed() % 5, **gen}),
            ("swc_chain", {"MaxN": 7, "MaxSoma": 2, "NTypes": 1, "SEEDK": C.seed() % 5, "CHAIN_ONLY": True, "FREE_SEG": True})]
    if not quick:
        runs = [("swc_a", {"MaxN": 7, "MaxSoma": 2, "NTypes": 2, "SEEDK": C.seed() % 5, **gen}),
                ("swc_b", {"MaxN": 6, "MaxSoma": 3, "NTypes": 3, "SEEDK": 1 + C.seed() % 5, **gen}),
                ("swc_chain", {"MaxN": 8, "MaxSoma": 2, "NTypes": 2, "SEEDK": C.seed() % 5, "CHAIN_ONLY": True, "FREE_SEG": True})]
    files = []
    states = trans = 0
    for name, consts in runs:
        cfg = os.path.join(C.WORK, name + ".cfg")
        os.makedirs(C.WORK, exist_ok=True)
        C.write_cfg(cfg, spec="Spec", constants=consts,
                    invariants=["EveryPointInExactlyOneSectionBody", "SectionsFormATree", "TypesPartition", "SplitRespectsTheBound",
                                "SplitKeepsTheTracedLength"], constraints=["Emit"])
        res = C.run_tlc("Swc", cfg, name, timeout=1700)
        if res.violated:
            chk.violation({"tlc_invariant": res.violated}, res.out[-2000:])
            continue
        if not res.ok:
            raise C.MachineryError("Swc.tla failed:\n" + res.out[-2000:])
        states += res.distinct
        trans += res.generated
        for line in res.printed("FILE"):
            files.append(json.loads(line[line.index('"{') + 1: line.rindex('}"') + 1].replace('\\"', '"')))
    if len(files) < 2000:
        raise C.MachineryError("only %d files enumerated" % len(files))
    # every file goes through swc_to_jaxley; a seeded sample is also built into a Cell (0.3 s each)
    ncell = 500 if quick else len(files)
    build_idx = set(rnd.sample(range(len(files)), min(ncell, len(files))))
    items = [(f, i in build_idx) for i, f in enumerate(files)]
    opts = {"ncomps": [1, 3] if quick else [1, 2, 3, 5], "min_radius": [None, 1.5]}
    jobs = [{"opts": opts, "files": ch} for ch in C.chunks(items, C.NCPU * 2)]
    outs = C.run_workers("swc_check", jobs, timeout=3000)
    nf = nc = nsplit = nout = 0
    for o in outs:
        nf += o["files"]
        nc += o["cells"]
        nsplit += o["split_reads"]
        nout += o["split_capped"]
        for m in o["mismatch"]:
            sig = {k: m[k] for k in ("kind", "single_point_soma", "connector", "max_branch_len") if k in m}
            if m["kind"] == "types":
                sig["first_neurite_type_differs_from_last_point_type"] = m["first_neurite_type_differs_from_last_point_type"]
            chk.violation(sig, m)
    chk.set("states", states)
    chk.set("transitions", trans)
    chk.set("traces_validated_against_impl", nf)
    chk.set("files_read", nf)
    chk.set("cells_built", nc)
    chk.set("reads_with_max_branch_len_that_split", nsplit)
    chk.set("reads_in_which_too_few_points_stop_the_splitting", nout)
    if nsplit < 100 or nout < 100:
        raise C.MachineryError("vacuity: only %d reads in which max_branch_len cuts a section, %d in which it cannot" % (nsplit, nout))
    chk.set("exhaustive", True)
    chk.set("evaluations", nf)
    chk.set("distinct_nontrivial", sum(1 for f in files if len(f["secs"]) >= 2))
    chk.set("rule", "every well-formed SWC structure (pre-ordered tree x type labelling, type changes along neurites, 1..3 soma points) "
                    "with <= %d points, segment lengths 0..3 and radii 1..3 as seeded functions of the structure; every file is written to "
                    "disk and read by swc_to_jaxley (sections, lengths, types, parents, connector, radius profile), a sample of %d by "
                    "read_swc (cell lengths, radii incl. min_radius, groups, independence of ncomp); every file whose sections max_branch_len = 2 or 5 "
                    "cuts is read again with it (parts, their lengths <= the bound, parents, radius profile); non-trivial = >= 2 sections"
                    % (max(r[1]["MaxN"] for r in runs), nc))
    for f in files[:2] + files[-1:]:
        chk.sample({k: f[k] for k in ("n", "par", "typ", "seg", "rad")})
    chk.assume("TLC", "well-formed = single tree, pre-order ids, soma points first as a chain; max_branch_len in {2, 5} is modelled as coded (cut by number of points, every part keeps >= 2 points, splitting stops where that is impossible)",
               "the 0.1 um connector branch is a named deviation pinned by the repository's own test")
    return chk.finish()


if __name__ == "__main__":
    if len(sys.argv) == 3:
        worker()
    else:
        C.main_wrapper(main)

"""C13: set_ncomp preserves the branch and its surroundings (SetNcomp.tla; refinement against direct construction).

usage: python -m harness.setncomp_check            (driver)
       python -m harness.setncomp_check <job> <out>   (worker)
"""
import json
import os
import sys

from harness import common as C

SWC = "tests/swc_files/morph_minimal.swc"


def build(parents, ncomp, groups_by_branch, hh_branches):
    """Cell with per-branch uniform but mutually different properties, built directly with `ncomp`."""
    from harness.jaxsetup import jx, np
    from jaxley.channels import Leak, HH
    comp = jx.Compartment()
    cell = jx.Cell([jx.Branch(comp, ncomp=int(k)) for k in ncomp], parents=[p - 1 for p in parents])
    for b in range(len(parents)):
        br = cell.branch(b)
        br.set("radius", 1.0 + 0.5 * b)
        br.set("length", (30.0 + 10.0 * b) / ncomp[b])        # total length of branch b: 30 + 10 b
        br.set("axial_resistivity", 1000.0 + 300.0 * b)
        br.set("capacitance", 1.0 + 0.25 * b)
        br.set("v", -70.0 + 3.0 * b)
    cell.insert(Leak())
    for b in range(len(parents)):
        cell.branch(b).set("Leak_gLeak", 1e-4 * (1 + b))
    for b in hh_branches:
        cell.branch(b).insert(HH())
        cell.branch(b).set("HH_gNa", 0.1 + 0.01 * b)
    for g, brs in sorted(groups_by_branch.items()):
        cell.branch([b - 1 for b in brs]).add_to_group(g)
    return cell


def table(cell):
    n = cell.nodes.copy()
    n = n[[c for c in sorted(n.columns) if c != "controlled_by_param"]]
    return n


def one_step(cell, vs):
    from harness.jaxsetup import jax, np
    from jaxley.integrate import build_init_and_step_fn
    cell.to_jax()
    init_fn, step_fn = build_init_and_step_fn(cell, voltage_solver=vs)
    st, params = init_fn([], None, None, 0.025)
    with jax.disable_jit():
        out = step_fn(st, params, {}, {}, 0.025)
    return np.asarray(out["v"], dtype=float)


def worker():
    from harness.jaxsetup import jax, jnp, np, jx
    import pandas as pd
    job = json.load(open(sys.argv[1]))
    res = {"states": 0, "steps": 0, "swc": 0, "mismatch": []}
    gb = {g: sorted(v) for g, v in job["groups_by_branch"].items()}
    for st in job["states"]:
        parents, want_nc, calls = st["parents"], list(st["ncomp"]), [tuple(c) for c in st["calls"]]
        nb = len(parents)
        gbb = {g: [b if b <= nb else nb for b in v] for g, v in gb.items()}
        gbb = {g: sorted(set(v)) for g, v in gbb.items()}
        hh = [1] + ([3] if nb > 3 else [])
        sig = {"ncalls": len(calls)}
        try:
            cell = build(parents, st["init"], gbb, hh)
            for b, n in calls:
                cell.branch(b - 1).set_ncomp(int(n))
            direct = build(parents, want_nc, gbb, hh)
        except Exception as e:
            res["mismatch"].append({**sig, "kind": "raised", "calls": calls, "err": type(e).__name__ + ": " + str(e)[:200]})
            res["states"] += 1
            continue
        res["states"] += 1
        ta, tb = table(cell), table(direct)
        if list(ta.columns) != list(tb.columns) or len(ta) != len(tb):
            res["mismatch"].append({**sig, "kind": "table_shape", "calls": calls})
            continue
        diff = [c for c in ta.columns if not np.allclose(ta[c].to_numpy(dtype=float), tb[c].to_numpy(dtype=float), rtol=1e-12, atol=0, equal_nan=True)]
        if diff:
            res["mismatch"].append({**sig, "kind": "table", "calls": calls, "columns": diff})
        if [int(x) for x in cell.ncomp_per_branch] != want_nc or [int(x) for x in cell.comb_parents] != [p - 1 for p in parents]:
            res["mismatch"].append({**sig, "kind": "structure", "calls": calls})
        got_groups = {g: sorted(int(x) for x in v) for g, v in cell.groups.items()}
        want_groups = {g: sorted(v) for g, v in st["groups"].items()}
        # the specification's third group names the cell's last branch
        if got_groups != want_groups:
            touched = {b for b, _ in calls}
            res["mismatch"].append({**sig, "kind": "groups", "calls": calls, "got": got_groups, "want": want_groups})
        else:
            try:
                for g in want_groups:
                    v = getattr(cell, g)
                    if sorted(int(x) for x in v._nodes_in_view) != want_groups[g]:
                        res["mismatch"].append({**sig, "kind": "group_view", "calls": calls, "group": g})
            except Exception as e:
                res["mismatch"].append({**sig, "kind": "group_view", "calls": calls, "err": str(e)[:100]})
        # indistinguishable in simulation from the directly built module, with every voltage solver
        for vs in ("jaxley.stone", "jaxley.thomas", "jax.sparse"):
            try:
                a, b = one_step(cell, vs), one_step(direct, vs)
            except Exception as e:
                res["mismatch"].append({**sig, "kind": "step_raised", "calls": calls, "voltage_solver": vs, "err": str(e)[:150]})
                continue
            res["steps"] += 1
            if a.shape != b.shape or not np.allclose(a, b, rtol=1e-12, atol=1e-12):
                res["mismatch"].append({**sig, "kind": "simulation", "calls": calls, "voltage_solver": vs,
                                        "maxdiff": float(np.max(np.abs(a - b))) if a.shape == b.shape else None})
    # SWC cell: length, radius profile (re-sampled from the traced radii), groups, connectivity
    for calls in job.get("swc_calls", []):
        fname = os.path.join(os.environ.get("VERIF_REPO", "/repo"), SWC)
        cell = jx.read_swc(fname, ncomp=2)
        before_groups = {g: sorted(set(int(x) for x in cell.nodes.loc[v, "global_branch_index"])) for g, v in cell.groups.items()}
        before_len = cell.nodes.groupby("global_branch_index")["length"].sum().to_numpy()
        nb = len(cell.comb_parents)
        try:
            for b, n in calls:
                cell.branch(b % nb).set_ncomp(int(n))
        except Exception as e:
            res["mismatch"].append({"kind": "raised", "ncalls": len(calls), "swc": True, "calls": calls, "err": str(e)[:150]})
            continue
        res["swc"] += 1
        after_len = cell.nodes.groupby("global_branch_index")["length"].sum().to_numpy()
        if not np.allclose(before_len, after_len, rtol=1e-12):
            res["mismatch"].append({"kind": "swc_length", "ncalls": len(calls), "swc": True, "calls": calls})
        for b, n in calls:
            ref = jx.read_swc(fname, ncomp=int(n))
            bi = b % nb
            if [k for kk, k in calls if kk % nb == bi][-1] != n:
                continue
            r_ref = ref.nodes[ref.nodes["global_branch_index"] == bi]["radius"].to_numpy()
            r_got = cell.nodes[cell.nodes["global_branch_index"] == bi]["radius"].to_numpy()
            if r_ref.shape != r_got.shape or not np.allclose(r_ref, r_got, rtol=1e-12):
                res["mismatch"].append({"kind": "swc_radius", "ncalls": len(calls), "swc": True, "calls": calls, "branch": bi})
        after_groups = {}
        try:
            after_groups = {g: sorted(set(int(x) for x in cell.nodes.loc[v, "global_branch_index"])) for g, v in cell.groups.items()}
        except Exception:
            after_groups = {"error": "group rows do not exist"}
        rows_ok = all(sorted(int(x) for x in v) == sorted(int(x) for x in cell.nodes.index[cell.nodes["global_branch_index"].isin(before_groups[g])])
                      for g, v in cell.groups.items())
        if after_groups != before_groups or not rows_ok:
            res["mismatch"].append({"kind": "groups", "ncalls": len(calls), "swc": True, "calls": calls, "got": after_groups, "want": before_groups})
    json.dump(res, open(sys.argv[2], "w"), default=str)


def main(which="C13"):
    import random
    # C19 lists set_ncomp among its editing calls: the same refinement replay runs as the second stage of C19 (tables, groups,
    # structure and simulation after set_ncomp sequences on cells that already carry channels, parameters and groups)
    prev = None
    evp = os.path.join(C.EVID, which + ".json")
    if which == "C19" and os.environ.get("VERIF_MERGE_EVIDENCE") == "1" and os.path.exists(evp):
        prev = json.load(open(evp))
    chk = C.Check(which, "model_checking")
    quick = C.tier() == "quick"
    rnd = random.Random(C.seed())
    sts = []
    states = trans = 0
    gbb = None
    for s in ("A", "B"):
        cfg = open(os.path.join(C.SPEC, "MC_SetNcomp_%s.cfg" % s)).read()
        if not quick:
            cfg = cfg.replace("MaxCalls = 2", "MaxCalls = 3")
        os.makedirs(C.WORK, exist_ok=True)
        p = os.path.join(C.WORK, "setncomp_%s.cfg" % s)
        open(p, "w").write(cfg)
        res = C.run_tlc("MC_SetNcomp", p, "setncomp_" + s, workers=4, timeout=900)
        if res.violated:
            chk.violation({"tlc_invariant": res.violated}, res.out[-2000:])
            continue
        if not res.ok:
            raise C.MachineryError("SetNcomp.tla failed:\n" + res.out[-2000:])
        states += res.distinct
        trans += res.generated
        seen = set()
        for line in res.printed("SHAPE"):
            o = json.loads(line[line.index('"{') + 1: line.rindex('}"') + 1].replace('\\"', '"'))
            key = json.dumps(o["calls"])
            if key in seen:
                continue
            seen.add(key)
            o["init"] = [2, 2, 2, 2] if s == "A" else [1, 3, 2]
            sts.append(o)
    if len(sts) < 100:
        raise C.MachineryError("only %d shapes" % len(sts))
    if quick:
        sts = [s for s in sts if len(s["calls"]) <= 1] + rnd.sample([s for s in sts if len(s["calls"]) == 2], 90)
    groups_by_branch = {"g0": [1], "g1": [2], "g23": [3, 99]}       # 99 = the cell's last branch (MC_SetNcomp.GroupsMC)
    swc_calls = [[(1, 3)], [(0, 1), (2, 4)], [(3, 2), (1, 5), (3, 1)], [(2, 3), (2, 1)]]
    jobs = [{"states": ch, "groups_by_branch": groups_by_branch, "swc_calls": swc_calls if i == 0 else []}
            for i, ch in enumerate(C.chunks(sts, C.NCPU))]
    outs = C.run_workers("setncomp_check", jobs, timeout=3000)
    n = nsteps = nswc = 0
    for o in outs:
        n += o["states"]
        nsteps += o["steps"]
        nswc += o["swc"]
        for m in o["mismatch"]:
            chk.violation({"kind": m["kind"], "swc": bool(m.get("swc"))}, m)
    chk.set("states", states)
    chk.set("transitions", trans)
    chk.set("traces_validated_against_impl", n + nswc)
    chk.set("call_sequences_replayed", n)
    chk.set("simulation_comparisons", nsteps)
    chk.set("swc_sequences", nswc)
    chk.set("exhaustive", True)
    chk.set("evaluations", n + nswc)
    chk.set("distinct_nontrivial", sum(1 for s in sts if len(s["calls"]) >= 1))
    chk.set("rule", "every sequence of <= 2 [thorough 3] set_ncomp(b, n) calls, b any branch, n in 1..3, on two cells (4 branches <<2,2,2,2>> "
                    "with a grand-child, 3 branches <<1,3,2>>) with per-branch different geometry, Leak everywhere, HH on some branches and "
                    "three branch groups; the edited module must equal the directly built one in every table column, groups, structure and "
                    "in one step of all three voltage solvers; plus SWC cell sequences (length, re-sampled radius profile, groups)")
    for s in sts[1:4]:
        chk.sample({"parents": s["parents"], "calls": s["calls"], "ncomp": s["ncomp"], "groups": s["groups"]})
    chk.assume("TLC", "groups are created through branch views (branch membership is what the property preserves)")
    if prev:
        cov = prev["coverage"]
        chk.set("set_ncomp_part", {k: chk.cov.get(k) for k in ("call_sequences_replayed", "simulation_comparisons", "swc_sequences")})
        for k, v in cov.items():
            if k in ("states", "transitions", "traces_validated_against_impl", "evaluations"):
                chk.cov[k] = int(chk.cov.get(k, 0)) + int(v)
            elif k not in ("samples", "violation_signatures"):
                chk.cov[k] = v if k != "rule" else v + " || set_ncomp (SetNcomp.tla): " + chk.cov.get("rule", "")
        chk.violations += prev.get("violations", 0)
        for fid, cnt in (cov.get("known_findings_hit") or {}).items():
            chk.known[fid] = chk.known.get(fid, 0) + cnt
        for a in prev.get("assumptions", []):
            chk.assume(a)
        return chk.finish(extra_wall=float(prev.get("wall_s", 0.0)))
    return chk.finish()


if __name__ == "__main__":
    if len(sys.argv) == 3:
        worker()
    else:
        C.main_wrapper(lambda: main(sys.argv[1] if len(sys.argv) == 2 else "C13"))

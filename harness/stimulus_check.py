"""X02 (not one of the listed properties): Stimulus.tla against jaxley/stimulus.py and integrate's t_max rule.

usage: python -m harness.stimulus_check
"""
import json
import os
import sys
from fractions import Fraction

from harness import common as C


def main():
    chk = C.Check("X02", "model_checking")
    res = C.run_tlc("Stimulus", os.path.join(C.SPEC, "Stimulus.cfg"), "stim", workers=4, timeout=600)
    if res.violated:
        chk.violation({"tlc_invariant": res.violated}, res.out[-2000:])
        return chk.finish()
    if not res.ok:
        raise C.MachineryError("Stimulus.tla failed:\n" + res.out[-2000:])
    sts = [json.loads(l[l.index('"{') + 1: l.rindex('}"') + 1].replace('\\"', '"')) for l in res.printed("STIM")]
    if len(sts) < 500:
        raise C.MachineryError("only %d calls emitted" % len(sts))
    from harness.jaxsetup import jx, jnp, np
    from harness import probes
    n = sims = hazards = 0
    for st in sts:
        a, b, m, amp, off = st["a"], st["b"], st["m"], st["amp"], st["off"]
        for dt in (0.125, 0.5, 0.25):          # binary-exact steps: the code's float quotients are exact
            n += 1
            got = np.asarray(jx.step_current(a * dt, b * dt, float(amp), dt, m * dt, float(off)))
            sig = {"fn": "step_current", "window_beyond_array": a + b > m + 2, "offset": off != 0}
            if got.shape != (len(st["out"]),) or not np.array_equal(got, np.asarray(st["out"], dtype=float)):
                chk.violation(sig, {"call": st, "dt": dt, "got": got.tolist()})
                continue
            rows = np.asarray(jx.datapoint_to_step_currents(a * dt, b * dt, jnp.asarray([float(amp), 5.0]), dt, m * dt, float(off)))
            if rows.shape != (2, len(st["out"])) or not np.array_equal(rows, np.asarray(st["rows"], dtype=float)):
                chk.violation({**sig, "fn": "datapoint_to_step_currents"}, {"call": st, "dt": dt, "got": rows.tolist()})
        # what integrate(t_max = m dt) makes of it: on a capacitor compartment sample k adds exactly S[k] mV in step k
        if st["off"] == 0 and (st["a"] + 2 * st["b"] + st["m"]) % 3 == C.seed() % 3:
            cell = probes.build_cell([1], [1])
            cell.stimulate(jx.step_current(a * probes.DT, b * probes.DT, float(amp), probes.DT, m * probes.DT), verbose=False)
            cell.record("v", verbose=False)
            v = np.asarray(jx.integrate(cell, delta_t=probes.DT, t_max=m * probes.DT))[0]
            want = np.concatenate([[0.0], np.cumsum(np.asarray(st["consumed"], dtype=float))])
            sims += 1
            if v.shape != want.shape or not np.allclose(v, want, rtol=0, atol=1e-9):
                chk.violation({"fn": "integrate(step_current)", "window_beyond_array": a + b > m + 2},
                              {"call": st, "got": v.tolist(), "want": want.tolist()})
    # observation (reported, never a violation): with steps that are not binary fractions the code's float quotient
    # int(i_delay / dt) can fall one below the exact quotient of the two doubles' decimal meaning
    examples = []
    for dt in (0.025, 0.1, 0.05):
        for k in range(1, 400):
            delay = round(k * dt, 10)
            if int(delay / dt) != k:
                hazards += 1
                if len(examples) < 5:
                    examples.append({"i_delay": delay, "delta_t": dt, "int(i_delay/delta_t)": int(delay / dt), "steps_meant": k})
    chk.set("states", res.distinct)
    chk.set("transitions", res.generated)
    chk.set("traces_validated_against_impl", n + sims)
    chk.set("calls_compared", n)
    chk.set("simulations_compared", sims)
    chk.set("exhaustive", True)
    chk.set("evaluations", n + sims)
    chk.set("distinct_nontrivial", len(sts))
    chk.set("observation_float_floor", {"delays_k_dt_whose_window_starts_one_step_early": hazards, "examples": examples})
    chk.set("rule", "Stimulus.tla: every (delay, duration, t_max) in 0..6 x 0..5 x 0..5 steps x 2 amplitudes x 2 offsets; invariants "
                    "LengthIsTmaxPlusTwo, AmplitudeSamples, FitsIntegrate, DeliveredCharge, RowsAreSingles; step_current and "
                    "datapoint_to_step_currents compared sample by sample at 3 binary-exact steps; a third of the calls integrated on a "
                    "capacitor compartment with t_max and compared with the running sum of the consumed samples")
    chk.sample(sts[len(sts) // 3])
    chk.assume("TLC", "grid units: delay, duration and t_max are whole numbers of binary-exact steps; not one of the listed properties")
    return chk.finish()


if __name__ == "__main__":
    C.main_wrapper(main)

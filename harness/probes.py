"""Integer-exact probe mechanisms and probe modules (see spec/ProbeSim.tla).

Ordinary user-level Channel / Synapse subclasses; nothing in the repository is instrumented."""
import math

from harness.jaxsetup import jax, jnp, np, jx
from jaxley.channels import Channel
from jaxley.synapses import Synapse

DT = 0.25
UNIT = 1.0 / (1000.0 * DT)     # a current density of UNIT mA/cm^2 changes v by 1 mV per step (cm = 1)


class A(Channel):
    """current density -(A_g + 100 sh) * UNIT; state A_s counts steps"""

    def __init__(self, name=None):
        self.current_is_in_mA_per_cm2 = True
        super().__init__(name)
        self.channel_params = {"A_g": 0.0, "sh": 0.0}
        self.channel_states = {"A_s": 0.0}
        self.current_name = "i_A"

    def update_states(self, states, dt, v, params):
        return {"A_s": states["A_s"] + 1.0}

    def compute_current(self, states, v, params):
        return -(params["A_g"] + 100.0 * params["sh"]) * UNIT + 0.0 * v

    def init_state(self, states, v, params, delta_t):
        return {}


class B(Channel):
    """current density -(10 B_g + 100 sh) * UNIT; no state"""

    def __init__(self, name=None):
        self.current_is_in_mA_per_cm2 = True
        super().__init__(name)
        self.channel_params = {"B_g": 0.0, "sh": 0.0}
        self.channel_states = {}
        self.current_name = "i_B"

    def update_states(self, states, dt, v, params):
        return {}

    def compute_current(self, states, v, params):
        return -(10.0 * params["B_g"] + 100.0 * params["sh"]) * UNIT + 0.0 * v

    def init_state(self, states, v, params, delta_t):
        return {}


CHAN = {"A": A, "B": B}


def capacitor_geometry(mod, K, cm=None):
    """Isolated capacitors: a point current of I nA changes v by I * K[r] / radius mV per step.
    cm: optional specific capacitances per row; the length shrinks by the same factor, so point currents (stimuli,
    synaptic currents) act exactly as with cm = 1 (current DENSITIES, i.e. the probe channels, would not)."""
    n = len(mod.nodes)
    assert len(K) == n
    cm = [1.0] * n if cm is None else list(cm)
    mod.set("axial_resistivity", 1e30)
    mod.set("capacitance", np.asarray(cm))
    mod.set("radius", 1.0)
    mod.set("length", np.asarray([DT * 1e5 / (2 * math.pi * k * c) for k, c in zip(K, cm)]))
    mod.set("v", 0.0)


def build_cell(shape, K):
    comp = jx.Compartment()
    cell = jx.Cell([jx.Branch(comp, ncomp=int(k)) for k in shape], parents=[-1] + [0] * (len(shape) - 1))
    capacitor_geometry(cell, K)
    return cell


def tok(x):
    """table cell -> specification token (NaN -> -1)."""
    if x is None:
        return -1
    x = float(x)
    if math.isnan(x):
        return -1
    r = round(x)
    if abs(x - r) > 1e-6:
        return "frac:%r" % x
    return int(r)


class P(Synapse):
    """state P_s := presynaptic voltage (of the previous time point); current -P_w * P_s nA"""

    def __init__(self, name=None):
        super().__init__(name)
        self.synapse_params = {"P_w": 1.0}
        self.synapse_states = {"P_s": 0.0}

    def update_states(self, states, delta_t, pre_voltage, post_voltage, params):
        return {"P_s": pre_voltage + 0.0 * states["P_s"]}

    def compute_current(self, states, pre_voltage, post_voltage, params):
        return -params["P_w"] * states["P_s"] + 0.0 * post_voltage


class Q(Synapse):
    """state Q_s counts steps; current -Q_w * Q_s nA"""

    def __init__(self, name=None):
        super().__init__(name)
        self.synapse_params = {"Q_w": 1.0}
        self.synapse_states = {"Q_s": 0.0}

    def update_states(self, states, delta_t, pre_voltage, post_voltage, params):
        return {"Q_s": states["Q_s"] + 1.0}

    def compute_current(self, states, pre_voltage, post_voltage, params):
        return -params["Q_w"] * states["Q_s"] + 0.0 * post_voltage


SYN = {"P": P, "Q": Q}


def build_net(shapes, K, cm=None):
    comp = jx.Compartment()
    cells = [jx.Cell([jx.Branch(comp, ncomp=int(k)) for k in shape], parents=[-1] + [0] * (len(shape) - 1)) for shape in shapes]
    net = jx.Network(cells)
    capacitor_geometry(net, K, cm)
    net.set("v", np.arange(len(net.nodes)) + 1.0)
    return net

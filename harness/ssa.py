"""Traced scalar programs as SSA JSON for spec/ExprAbs.tla, and evaluation of Kinetics.tla trees."""
from fractions import Fraction

from harness.jaxsetup import jax, jnp, np

try:
    from jax.extend.core import Literal
except Exception:  # pragma: no cover
    from jax.core import Literal


def rat(x):
    f = Fraction(str(float(x))).limit_denominator(10 ** 6)
    return [f.numerator, f.denominator]


def to_ssa(fn, example=-30.0, lo=-200, hi=200):
    """Flatten the jaxpr of fn(v) (inlining jit/pjit calls) into SSA nodes
    {id, op, args: [{'var': id} | {'const': [n, d]}]}; input 0 is v."""
    closed = jax.make_jaxpr(fn)(jnp.float64(example))
    nodes = []

    def walk(jaxpr, env, consts):
        for cv, val in consts:
            env[cv] = {"const": rat(np.asarray(val).reshape(-1)[0])}
        for eqn in jaxpr.eqns:
            ins = [({"const": rat(a.val)} if isinstance(a, Literal) else env[a]) for a in eqn.invars]
            prim = eqn.primitive.name
            if prim in ("pjit", "jit", "closed_call", "core_call", "custom_jvp_call", "custom_vjp_call"):
                sub = eqn.params.get("jaxpr") or eqn.params.get("call_jaxpr")
                subj = sub.jaxpr if hasattr(sub, "jaxpr") else sub
                subenv = {v: i for v, i in zip(subj.invars, ins)}
                outs = walk(subj, subenv, zip(getattr(subj, "constvars", []), getattr(sub, "consts", [])))
                for ov, o in zip(eqn.outvars, outs):
                    env[ov] = o
                continue
            if prim in ("convert_element_type", "copy", "squeeze", "reshape", "broadcast_in_dim", "stop_gradient"):
                env[eqn.outvars[0]] = ins[0]
                continue
            if prim == "integer_pow":
                prim = "pow%d" % eqn.params["y"]
            nid = len(nodes) + 1
            nodes.append({"id": nid, "op": prim, "args": ins})
            env[eqn.outvars[0]] = {"var": nid}
        return [({"const": rat(o.val)} if isinstance(o, Literal) else env[o]) for o in jaxpr.outvars]

    env = {closed.jaxpr.invars[0]: {"var": 0}}
    outs = walk(closed.jaxpr, env, zip(closed.jaxpr.constvars, closed.consts))
    return {"nodes": nodes, "outs": outs, "lo": [lo, 1], "hi": [hi, 1]}


def tree_to_ssa(trees, params, lo=-200, hi=200):
    """Linearise Kinetics.tla expression trees (one output per tree) into the same SSA format."""
    nodes = []

    def emit(op, args):
        nodes.append({"id": len(nodes) + 1, "op": op, "args": args})
        return {"var": len(nodes)}

    def go(t):
        if "c" in t:
            return {"const": [int(t["c"][0]), int(t["c"][1])]}
        if "v" in t:
            return {"var": 0}
        if "p" in t:
            return {"const": rat(params[t["p"]])}
        a = go(t["a"])
        if t["op"] in ("neg", "exp", "xexpm1"):
            return emit(t["op"], [a])
        if t["op"] == "pow":
            return emit("pow%d" % t["b"]["c"][0], [a])
        return emit(t["op"], [a, go(t["b"])])

    outs = [go(t) for t in trees]
    return {"nodes": nodes, "outs": outs, "lo": [lo, 1], "hi": [hi, 1]}


def eval_tree(t, v, params, mp):
    """Evaluate a Kinetics.tla tree in mpmath arithmetic (v and params are exact inputs)."""
    if "c" in t:
        return mp.mpf(int(t["c"][0])) / mp.mpf(int(t["c"][1]))
    if "v" in t:
        return mp.mpf(v)
    if "p" in t:
        return mp.mpf(params[t["p"]])
    a = eval_tree(t["a"], v, params, mp)
    op = t["op"]
    if op == "neg":
        return -a
    if op == "exp":
        return mp.exp(a)
    if op == "xexpm1":
        return mp.mpf(1) if a == 0 else a / mp.expm1(a)
    b = eval_tree(t["b"], v, params, mp)
    if op == "add":
        return a + b
    if op == "sub":
        return a - b
    if op == "mul":
        return a * b
    if op == "div":
        return a / b
    if op == "pow":
        return a ** int(b)
    raise ValueError(op)

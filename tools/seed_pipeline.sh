#!/bin/bash
# usage: seed_pipeline.sh <seed id> <property> <dir with patch.diff demo.py meta.json> [worktree to remove]
# verify (demo clean / patched, 117 baseline tests) then run the property's quick check against the patched tree
cd /verif
tools/seed_verify.sh "$1" "$2" "$3" > /tmp/ver_$1.log 2>&1
[ -n "$4" ] && git -C /repo worktree remove --force "$4" >/dev/null 2>&1
tools/seed_detect.sh "$1" "$2" | tail -1 >> /tmp/r5.log

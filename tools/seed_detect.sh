#!/bin/bash
# usage: seed_detect.sh <seed id> <property> [tier]   -> runs the property's check against a scratch worktree with the seeded patch
id="$1"; prop="$2"; tier="${3:-quick}"
wt=/tmp/det_$id
git -C /repo worktree remove --force $wt >/dev/null 2>&1
git -C /repo worktree add -q --detach $wt HEAD || exit 3
git -C $wt apply /verif/seeded/$id/patch.diff || exit 4
cd /verif
mkdir -p /tmp/det_out_$id
# separate work/evidence dirs are not needed for verdicts; run sequentially per property to avoid clobbering
VERIF_REPO=$wt ./check $prop --tier $tier > /verif/seeded/$id/detect_$prop.log 2>&1
rc=$?
grep -c "^VIOLATION" /verif/seeded/$id/detect_$prop.log > /tmp/det_out_$id/n
echo "{\"seed\": \"$id\", \"check\": \"$prop\", \"tier\": \"$tier\", \"exit\": $rc, \"violation_lines\": $(cat /tmp/det_out_$id/n)}" > /verif/seeded/$id/detect_$prop.json
tail -40 /verif/seeded/$id/detect_$prop.log > /verif/seeded/$id/detect_$prop.tail; mv /verif/seeded/$id/detect_$prop.tail /verif/seeded/$id/detect_$prop.log
git -C /repo worktree remove --force $wt
rm -rf /tmp/det_out_$id
cat /verif/seeded/$id/detect_$prop.json

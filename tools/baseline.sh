#!/bin/bash
# runs the 117 stable baseline tests on /repo's working tree (guard off); prints the pytest summary line
cd /repo
ids=$(/venv/bin/python - <<'PY'
import json
b=json.load(open('/root/.vp/BASELINE.json'))
print(' '.join(s.split('::',1)[0].replace('.','/')+'.py::'+s.split('::',1)[1] for s in b['stable_pass']))
PY
)
env -u JAXLEY_VERIF /venv/bin/python -m pytest -q -p no:cacheprovider --timeout=900 $ids 2>&1 | tail -3

#!/usr/bin/env python3
"""usage: seed_prompt.py <Cxx> <tag> [avoid text]  -> creates worktree /tmp/wt<tag>_<Cxx> and /tmp/out<tag>_<Cxx>/PROMPT.txt"""
import json, os, subprocess, sys
pid, tag = sys.argv[1], sys.argv[2]
avoid = sys.argv[3] if len(sys.argv) > 3 else ""
p = [json.loads(l) for l in open('/verif/properties.jsonl') if json.loads(l)['id'] == pid][0]
wt, out = "/tmp/wt%s_%s" % (tag, pid), "/tmp/out%s_%s" % (tag, pid)
subprocess.run(["git", "-C", "/repo", "worktree", "remove", "--force", wt], capture_output=True)
subprocess.run(["git", "-C", "/repo", "worktree", "add", "-q", "--detach", wt, "HEAD"], check=True)
os.makedirs(out, exist_ok=True)
tmpl = open('/verif/tools/seed_prompt_template.txt').read()
txt = tmpl.replace("{TITLE}", p["title"]).replace("{STATEMENT}", p["statement"]).replace("{QUANT}", p["quantifier"]["text"]).replace("{WT}", wt).replace("{OUT}", out)
if avoid:
    txt = txt.replace("## What kind of change", "## Already used by somebody else (choose something clearly different)\n" + avoid + "\n\n## What kind of change")
open(out + "/PROMPT.txt", "w").write(txt)
print(out + "/PROMPT.txt")

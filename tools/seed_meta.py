#!/venv/bin/python
"""Writes /verif/seeded/<id>/meta.json from the seeding agent's description, the verification and the detection runs."""
import glob, json, os, sys
for d in sorted(glob.glob('/verif/seeded/*/')):
    sid = os.path.basename(d.rstrip('/'))
    am = json.load(open(d + 'agent_meta.json')) if os.path.exists(d + 'agent_meta.json') else {}
    ver = json.load(open(d + 'verify.json')) if os.path.exists(d + 'verify.json') else {}
    det = [json.load(open(f)) for f in sorted(glob.glob(d + 'detect_*.json'))]
    meta = {
        "seed": sid,
        "property": ver.get("property") or am.get("property"),
        "origin": "independent sub-agent that saw only the property text and a scratch worktree of /repo",
        "what_it_breaks": am.get("what_it_breaks"),
        "needs_to_manifest": am.get("needs_to_manifest"),
        "confirmed_here": {
            "command": "tools/seed_verify.sh %s <property> <dir>  (scratch worktree of /repo HEAD %s)" % (sid, ver.get("repo_head")),
            "demo_exit_clean_tree": ver.get("demo_rc_clean"), "demo_exit_with_patch": ver.get("demo_rc_patched"),
            "baseline_117_tests_with_patch": ver.get("baseline_summary"),
        },
        "detection": [{"command": "tools/seed_detect.sh %s %s %s" % (sid, x["check"], x["tier"]), "check_exit": x["exit"],
                       "violation_lines": x["violation_lines"], "detected": x["exit"] == 1} for x in det],
        "notes": (json.load(open(d + 'notes.json')) if os.path.exists(d + 'notes.json') else None),
    }
    json.dump(meta, open(d + 'meta.json', 'w'), indent=1)
    print(sid, meta["property"], [x["detected"] for x in meta["detection"]])

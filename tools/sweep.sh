#!/bin/bash
# usage: sweep.sh <seed> [tier] [ids...]  -> runs the registered checks one after the other with VERIF_SEED=<seed>; logs in /tmp/sweep_<seed>_<tier>/
sd="$1"; tier="${2:-quick}"; shift; shift
ids="$@"; [ -z "$ids" ] && ids="C01 C02 C03 C04 C05 C06 C07 C08 C09 C10 C11 C12 C13 C14 C15 C16 C17 C18 C19 C20"
out=/tmp/sweep_${sd}_${tier}; mkdir -p $out
cd /verif
for c in $ids; do
  t0=$(date +%s)
  VERIF_SEED=$sd ./check $c --tier $tier > $out/$c.log 2>&1; rc=$?
  echo "$c seed=$sd tier=$tier rc=$rc secs=$(( $(date +%s) - t0 )) violations=$(grep -c '^VIOLATION' $out/$c.log) known=$(grep -c '^KNOWN-FINDING' $out/$c.log)" >> $out/summary.txt
done

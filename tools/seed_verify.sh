#!/bin/bash
# usage: seed_verify.sh <seed id> <property> <dir with patch.diff demo.py meta.json>
# Confirms a seeded change in a scratch worktree of /repo's HEAD: demo passes clean, fails with the patch,
# the 117 baseline tests still pass with the patch.  Results go to /verif/seeded/<id>/verify.json.
id="$1"; prop="$2"; src="$3"
dst=/verif/seeded/$id; mkdir -p $dst
cp $src/patch.diff $src/demo.py $dst/ ; cp $src/meta.json $dst/agent_meta.json
wt=/tmp/ver_$id
git -C /repo worktree remove --force $wt >/dev/null 2>&1
git -C /repo worktree add -q --detach $wt HEAD || exit 3
cd $wt
export JAX_PLATFORMS=cpu
PYTHONPATH=$wt timeout 900 /venv/bin/python $dst/demo.py > $dst/demo_clean.log 2>&1; rc_clean=$?
git apply $dst/patch.diff || { echo "patch does not apply"; exit 4; }
PYTHONPATH=$wt timeout 900 /venv/bin/python $dst/demo.py > $dst/demo_patched.log 2>&1; rc_patched=$?
/venv/bin/python - <<PY > $dst/stable_ids.txt
import json
b=json.load(open('/root/.vp/BASELINE.json'))
for s in b['stable_pass']:
    mod,name=s.split('::',1)
    print(mod.replace('.','/')+'.py::'+name)
PY
PYTHONPATH=$wt timeout 3000 /venv/bin/python -m pytest -q -p no:cacheprovider --timeout=900 $(cat $dst/stable_ids.txt | tr '\n' ' ') > $dst/baseline_patched.log 2>&1; rc_tests=$?
tail -1 $dst/baseline_patched.log > $dst/baseline_summary.txt
git checkout -q -- .
cd /; git -C /repo worktree remove --force $wt
/venv/bin/python - <<PY
import json
json.dump({"seed": "$id", "property": "$prop", "demo_rc_clean": $rc_clean, "demo_rc_patched": $rc_patched, "baseline_rc_patched": $rc_tests,
           "baseline_summary": open("$dst/baseline_summary.txt").read().strip(), "repo_head": "$(git -C /repo log --format=%h -1)"},
          open("$dst/verify.json", "w"), indent=1)
PY
rm -f $dst/stable_ids.txt $dst/baseline_summary.txt
cat $dst/verify.json
